// verifgen: build-time source instrumenter for the vsched controlled scheduler.
//
//	verifgen -repo /repo -pkg sdk/go/keepclient -out <dir> [-files a.go,b.go] [-notime] [-maporder] [-fspoints f.go]
//
// Loads the package (type-checked, from the current working tree), rewrites every selected file
// and writes the rewritten copies to -out (bin/check maps them over the originals with
// go build -overlay).  Every rewrite is local and syntactic; a construct that cannot be
// transformed soundly is reported as "UNSUPPORTED file:line construct" and the tool exits 2.
//
// Rewrites (DESIGN.md 2.2):
//
//	R1 import "sync"  -> lib/verifshim/vsync (same name)
//	R2 go f(a,b)      -> { t0 := a; t1 := b; vsched.Go(func(){ f(t0,t1) }) }
//	R3 channel send / receive / range / select -> vsched.Send/Recv/Select announcement, the
//	   original operation on the real channel, vsched.Post()
//	R4 import "time"  -> lib/verifshim/vtime (same name)         (unless -notime)
//	R5 for k, v := range <map>  -> iteration in sorted key order   (with -maporder)
//	R6 vfs.Point("<func>:<callee>#n") before every filesystem step, vfs.Writer around the data
//	   writes of io.Copy(file, ...), vfs.Flock for syscall.Flock            (-fspoints files)
//	R7 io.Pipe() -> vfs.Pipe()                                               (-fspoints files)
package main

import (
	"bytes"
	"encoding/json"
	"flag"
	"fmt"
	"go/ast"
	"go/format"
	"go/parser"
	"go/printer"
	"go/token"
	"go/types"
	"io/ioutil"
	"os"
	"os/exec"
	"path/filepath"
	"reflect"
	"strconv"
	"strings"

	"golang.org/x/tools/go/packages"
)

const shimBase = "git.arvados.org/arvados.git/lib/verifshim/"

var (
	fset        *token.FileSet
	info        *types.Info
	pkgTypes    *types.Package
	unsupported []string
	tmpCounter  int
	optMapOrder bool
	optNoTime   bool
)

func main() {
	repo := flag.String("repo", "/repo", "repository root")
	pkg := flag.String("pkg", "", "package directory relative to the repository root")
	out := flag.String("out", "", "output directory")
	files := flag.String("files", "", "comma-separated base names to instrument (default: all non-test files)")
	fspoints := flag.String("fspoints", "", "comma-separated base names that get filesystem points (R6)")
	flag.BoolVar(&optNoTime, "notime", false, "leave package time alone")
	flag.BoolVar(&optMapOrder, "maporder", false, "iterate maps in sorted key order")
	flag.Parse()
	if *pkg == "" || *out == "" {
		fmt.Fprintln(os.Stderr, "usage: verifgen -repo R -pkg P -out D")
		os.Exit(2)
	}
	want := map[string]bool{}
	for _, f := range strings.Split(*files, ",") {
		if f != "" {
			want[f] = true
		}
	}
	fsp := map[string]bool{}
	for _, f := range strings.Split(*fspoints, ",") {
		if f != "" {
			fsp[f] = true
		}
	}

	overlay := pamOverlay()
	cfg := &packages.Config{
		Mode: packages.NeedName | packages.NeedFiles | packages.NeedSyntax | packages.NeedTypes |
			packages.NeedTypesInfo | packages.NeedImports | packages.NeedDeps | packages.NeedCompiledGoFiles,
		Dir:     *repo,
		Env:     append(os.Environ(), "GOFLAGS=-mod=mod", "GOPROXY=off", "GOSUMDB=off", "GOTOOLCHAIN=local"),
		Overlay: overlay,
	}
	pkgs, err := packages.Load(cfg, "./"+*pkg)
	if err != nil {
		fmt.Fprintln(os.Stderr, "verifgen: load:", err)
		os.Exit(2)
	}
	if len(pkgs) != 1 {
		fmt.Fprintf(os.Stderr, "verifgen: expected 1 package, got %d\n", len(pkgs))
		os.Exit(2)
	}
	p := pkgs[0]
	if len(p.Errors) > 0 {
		for _, e := range p.Errors {
			fmt.Fprintln(os.Stderr, "verifgen: package error:", e)
		}
		os.Exit(2)
	}
	fset = p.Fset
	info = p.TypesInfo
	pkgTypes = p.Types
	n := 0
	for i, f := range p.Syntax {
		path := p.CompiledGoFiles[i]
		base := filepath.Base(path)
		if strings.HasSuffix(base, "_test.go") || !strings.HasSuffix(base, ".go") {
			continue
		}
		if len(want) > 0 && !want[base] {
			continue
		}
		changed := rewriteFile(f, fsp[base])
		if !changed {
			continue
		}
		var buf bytes.Buffer
		if err := (&printer.Config{Mode: printer.UseSpaces | printer.TabIndent, Tabwidth: 8}).Fprint(&buf, fset, f); err != nil {
			fmt.Fprintln(os.Stderr, "verifgen: print:", err)
			os.Exit(2)
		}
		src, err := format.Source(buf.Bytes())
		if err != nil {
			ioutil.WriteFile(filepath.Join(*out, base+".broken"), buf.Bytes(), 0666)
			fmt.Fprintf(os.Stderr, "verifgen: rewritten %s does not parse: %v\n", base, err)
			os.Exit(2)
		}
		if err := ioutil.WriteFile(filepath.Join(*out, base), src, 0666); err != nil {
			fmt.Fprintln(os.Stderr, "verifgen:", err)
			os.Exit(2)
		}
		n++
	}
	if len(unsupported) > 0 {
		for _, u := range unsupported {
			fmt.Fprintln(os.Stderr, "UNSUPPORTED", u)
		}
		os.Exit(2)
	}
	fmt.Printf("verifgen: %s: %d file(s) rewritten\n", *pkg, n)
}

// pamOverlay lets packages that (transitively) import github.com/msteinert/pam load on a machine
// without the PAM headers (same stub bin/check uses for the build).
func pamOverlay() map[string][]byte {
	exe, _ := os.Executable()
	verif := os.Getenv("VERIF_DIR")
	if verif == "" {
		verif = filepath.Dir(filepath.Dir(filepath.Dir(exe)))
	}
	out, err := exec.Command("go", "env", "GOMODCACHE").Output()
	if err != nil {
		return nil
	}
	dir := filepath.Join(strings.TrimSpace(string(out)), "github.com/msteinert/pam@v0.0.0-20190215180659-f29b9f28d6f9")
	ov := map[string][]byte{}
	for _, fn := range []string{"transaction.go", "transaction.c", "callback.go"} {
		b, err := ioutil.ReadFile(filepath.Join(verif, "engine", "pamstub", fn))
		if err != nil {
			return nil
		}
		ov[filepath.Join(dir, fn)] = b
	}
	return ov
}

func unsup(n ast.Node, what string) {
	unsupported = append(unsupported, fmt.Sprintf("%s %s", fset.Position(n.Pos()), what))
}

func tmp(prefix string) *ast.Ident {
	tmpCounter++
	return ast.NewIdent(fmt.Sprintf("_v%s%d", prefix, tmpCounter))
}

func sel(pkg, name string) ast.Expr {
	return &ast.SelectorExpr{X: ast.NewIdent(pkg), Sel: ast.NewIdent(name)}
}

func callStmt(pkg, name string, args ...ast.Expr) ast.Stmt {
	return &ast.ExprStmt{X: &ast.CallExpr{Fun: sel(pkg, name), Args: args}}
}

func define(lhs *ast.Ident, rhs ast.Expr) ast.Stmt {
	return &ast.AssignStmt{Lhs: []ast.Expr{lhs}, Tok: token.DEFINE, Rhs: []ast.Expr{rhs}}
}

type fileCtx struct {
	file      *ast.File
	needSched bool
	needVfs   bool
	fsPoints  bool
	funcName  string
	fsCount   map[string]int
	skipFS    bool                   // inside a method of osWithStats (the primitive wrappers get no points)
	covered   map[*ast.CallExpr]bool // filesystem calls that got a point / were rewritten
	exempt    map[*ast.CallExpr]bool // deferred calls (no point: see fsPrepare)
}

func rewriteFile(f *ast.File, fsPoints bool) bool {
	c := &fileCtx{file: f, fsPoints: fsPoints, fsCount: map[string]int{},
		covered: map[*ast.CallExpr]bool{}, exempt: map[*ast.CallExpr]bool{}}
	changed := false
	// R1 / R4: imports
	for _, imp := range f.Imports {
		path, _ := strconv.Unquote(imp.Path.Value)
		switch path {
		case "sync":
			imp.Path.Value = strconv.Quote(shimBase + "vsync")
			if imp.Name == nil {
				imp.Name = ast.NewIdent("sync")
			}
			changed = true
		case "time":
			if optNoTime {
				continue
			}
			imp.Path.Value = strconv.Quote(shimBase + "vtime")
			if imp.Name == nil {
				imp.Name = ast.NewIdent("time")
			}
			changed = true
		}
	}
	for _, d := range f.Decls {
		fd, ok := d.(*ast.FuncDecl)
		if !ok || fd.Body == nil {
			// function literals in package-level var initialisers
			if gd, ok := d.(*ast.GenDecl); ok {
				ast.Inspect(gd, func(n ast.Node) bool {
					if fl, ok := n.(*ast.FuncLit); ok {
						c.funcName = "init"
						fl.Body = c.block(fl.Body)
						return false
					}
					return true
				})
			}
			continue
		}
		c.funcName = fd.Name.Name
		c.skipFS = false
		if fd.Recv != nil && len(fd.Recv.List) == 1 {
			c.funcName = recvName(fd.Recv.List[0].Type) + "." + fd.Name.Name
			c.skipFS = recvName(fd.Recv.List[0].Type) == "osWithStats"
		}
		fd.Body = c.block(fd.Body)
		if c.fsPoints && !c.skipFS {
			c.verifyFS(fd.Body)
		}
	}
	if c.needSched {
		addImport(f, "vsched", shimBase+"vsched")
		changed = true
	}
	if c.needVfs {
		addImport(f, "vfs", shimBase+"vfs")
		changed = true
	}
	if changed {
		// keep only the comments that precede the package clause (build constraints, licence)
		var keep []*ast.CommentGroup
		for _, cg := range f.Comments {
			if cg.End() < f.Package {
				keep = append(keep, cg)
			}
		}
		f.Comments = keep
		f.Doc = nil
		for _, d := range f.Decls {
			stripDocs(d)
		}
	}
	return changed
}

func stripDocs(d ast.Decl) {
	switch d := d.(type) {
	case *ast.FuncDecl:
		d.Doc = nil
	case *ast.GenDecl:
		d.Doc = nil
		for _, s := range d.Specs {
			switch s := s.(type) {
			case *ast.TypeSpec:
				s.Doc, s.Comment = nil, nil
				ast.Inspect(s, func(n ast.Node) bool {
					if f, ok := n.(*ast.Field); ok {
						f.Doc, f.Comment = nil, nil
					}
					return true
				})
			case *ast.ValueSpec:
				s.Doc, s.Comment = nil, nil
			case *ast.ImportSpec:
				s.Doc, s.Comment = nil, nil
			}
		}
	}
}

func recvName(e ast.Expr) string {
	switch e := e.(type) {
	case *ast.StarExpr:
		return recvName(e.X)
	case *ast.Ident:
		return e.Name
	}
	return "?"
}

func addImport(f *ast.File, name, path string) {
	spec := &ast.ImportSpec{Name: ast.NewIdent(name), Path: &ast.BasicLit{Kind: token.STRING, Value: strconv.Quote(path)}}
	gd := &ast.GenDecl{Tok: token.IMPORT, Specs: []ast.Spec{spec}}
	// after the last import declaration
	idx := 0
	for i, d := range f.Decls {
		if g, ok := d.(*ast.GenDecl); ok && g.Tok == token.IMPORT {
			idx = i + 1
		}
	}
	f.Decls = append(f.Decls[:idx], append([]ast.Decl{gd}, f.Decls[idx:]...)...)
	f.Imports = append(f.Imports, spec)
}

// ---------------------------------------------------------------------------------------------

func isChan(e ast.Expr) bool {
	t := info.TypeOf(e)
	if t == nil {
		return false
	}
	_, ok := t.Underlying().(*types.Chan)
	return ok
}

func isMap(e ast.Expr) bool {
	t := info.TypeOf(e)
	if t == nil {
		return false
	}
	_, ok := t.Underlying().(*types.Map)
	return ok
}

// simple: evaluating e has no side effects and cannot block (identifiers, selectors, constants,
// index of simple by simple, dereference, parenthesised simple).
func simple(e ast.Expr) bool {
	switch e := e.(type) {
	case nil:
		return true
	case *ast.Ident, *ast.BasicLit:
		return true
	case *ast.SelectorExpr:
		return simple(e.X)
	case *ast.ParenExpr:
		return simple(e.X)
	case *ast.StarExpr:
		return simple(e.X)
	case *ast.IndexExpr:
		return simple(e.X) && simple(e.Index)
	case *ast.UnaryExpr:
		return e.Op != token.ARROW && simple(e.X)
	case *ast.BinaryExpr:
		return simple(e.X) && simple(e.Y)
	}
	return false
}

func isConstOrNil(e ast.Expr) bool {
	if tv, ok := info.Types[e]; ok {
		if tv.Value != nil || tv.IsNil() {
			return true
		}
	}
	return false
}

// containsRecv reports whether e contains a receive operation outside function literals.
func containsRecv(n ast.Node) bool {
	if n == nil || reflect.ValueOf(n).IsNil() {
		return false
	}
	found := false
	ast.Inspect(n, func(m ast.Node) bool {
		switch m := m.(type) {
		case *ast.FuncLit:
			return false
		case *ast.UnaryExpr:
			if m.Op == token.ARROW {
				found = true
			}
		}
		return !found
	})
	return found
}

func containsCall(n ast.Node) bool {
	if n == nil || reflect.ValueOf(n).IsNil() {
		return false
	}
	found := false
	ast.Inspect(n, func(m ast.Node) bool {
		switch m := m.(type) {
		case *ast.FuncLit:
			return false
		case *ast.CallExpr:
			// conversions and builtins len/cap are harmless
			if id, ok := m.Fun.(*ast.Ident); ok && (id.Name == "len" || id.Name == "cap") {
				return true
			}
			if tv, ok := info.Types[m.Fun]; ok && tv.IsType() {
				return true
			}
			found = true
		case *ast.UnaryExpr:
			if m.Op == token.ARROW {
				found = true
			}
		}
		return !found
	})
	return found
}

// block rewrites a block statement in place and returns it.
func (c *fileCtx) block(b *ast.BlockStmt) *ast.BlockStmt {
	if b == nil {
		return nil
	}
	b.List = c.stmts(b.List)
	return b
}

func (c *fileCtx) stmts(list []ast.Stmt) []ast.Stmt {
	var out []ast.Stmt
	for _, s := range list {
		out = append(out, c.stmt(s)...)
	}
	return out
}

// exprFuncLits instruments function literals nested in expressions of a statement.
func (c *fileCtx) exprFuncLits(n ast.Node) {
	if n == nil || reflect.ValueOf(n).IsNil() {
		return
	}
	ast.Inspect(n, func(m ast.Node) bool {
		if fl, ok := m.(*ast.FuncLit); ok {
			fl.Body = c.block(fl.Body)
			return false
		}
		return true
	})
}

func recvOf(e ast.Expr) *ast.UnaryExpr {
	if p, ok := e.(*ast.ParenExpr); ok {
		return recvOf(p.X)
	}
	if u, ok := e.(*ast.UnaryExpr); ok && u.Op == token.ARROW {
		return u
	}
	return nil
}

// hoistChan returns an expression to use for the channel and the statements to run first.
func (c *fileCtx) hoistChan(ch ast.Expr) (ast.Expr, []ast.Stmt) {
	if simple(ch) {
		return ch, nil
	}
	id := tmp("ch")
	return id, []ast.Stmt{define(id, ch)}
}

func (c *fileCtx) recvWrap(ch ast.Expr, s ast.Stmt) []ast.Stmt {
	c.needSched = true
	return []ast.Stmt{callStmt("vsched", "Recv", ch), s, callStmt("vsched", "Post")}
}

// stmt returns the replacement statements for s.
func (c *fileCtx) stmt(s ast.Stmt) []ast.Stmt {
	switch s := s.(type) {
	case nil:
		return nil
	case *ast.BlockStmt:
		c.block(s)
		return []ast.Stmt{s}
	case *ast.LabeledStmt:
		inner := c.stmt(s.Stmt)
		// the label must stay on the (single) loop/switch statement: everything before it goes first
		last := inner[len(inner)-1]
		switch last.(type) {
		case *ast.ForStmt, *ast.RangeStmt, *ast.SwitchStmt, *ast.TypeSwitchStmt, *ast.SelectStmt, *ast.BlockStmt:
			s.Stmt = last
			return append(inner[:len(inner)-1], s)
		}
		if len(inner) == 1 {
			s.Stmt = inner[0]
			return []ast.Stmt{s}
		}
		unsup(s, "labeled statement that needs rewriting")
		return []ast.Stmt{s}
	case *ast.IfStmt:
		return c.ifStmt(s)
	case *ast.ForStmt:
		if s.Init != nil && containsRecv(s.Init) || s.Post != nil && (containsRecv(s.Post) || isSend(s.Post)) || s.Cond != nil && containsRecv(s.Cond) {
			unsup(s, "channel operation in for clause")
		}
		c.exprFuncLits(s.Init)
		c.exprFuncLits(s.Cond)
		c.exprFuncLits(s.Post)
		c.block(s.Body)
		return []ast.Stmt{s}
	case *ast.RangeStmt:
		return c.rangeStmt(s)
	case *ast.SwitchStmt:
		var pre []ast.Stmt
		if s.Init != nil && containsRecv(s.Init) {
			unsup(s, "receive in switch init")
		}
		if s.Tag != nil && containsRecv(s.Tag) {
			if r := recvOf(s.Tag); r != nil {
				ch, h := c.hoistChan(r.X)
				r.X = ch
				id := tmp("r")
				pre = append(pre, h...)
				pre = append(pre, c.recvWrap(ch, define(id, r))...)
				s.Tag = id
			} else {
				unsup(s, "receive nested in switch tag")
			}
		}
		c.exprFuncLits(s.Init)
		c.exprFuncLits(s.Tag)
		for _, cc := range s.Body.List {
			cl := cc.(*ast.CaseClause)
			for _, e := range cl.List {
				if containsRecv(e) {
					unsup(e, "receive in case expression")
				}
				c.exprFuncLits(e)
			}
			cl.Body = c.stmts(cl.Body)
		}
		if len(pre) > 0 {
			return []ast.Stmt{&ast.BlockStmt{List: append(pre, s)}}
		}
		return []ast.Stmt{s}
	case *ast.TypeSwitchStmt:
		if containsRecv(s.Assign) || s.Init != nil && containsRecv(s.Init) {
			unsup(s, "receive in type switch header")
		}
		for _, cc := range s.Body.List {
			cl := cc.(*ast.CaseClause)
			cl.Body = c.stmts(cl.Body)
		}
		return []ast.Stmt{s}
	case *ast.SelectStmt:
		return c.selectStmt(s)
	case *ast.GoStmt:
		return c.goStmt(s)
	case *ast.SendStmt:
		return c.sendStmt(s)
	case *ast.DeferStmt:
		if containsRecv(s.Call) {
			// receives inside a deferred function literal are handled through exprFuncLits;
			// a receive evaluated as an argument at defer time is not supported
			for _, a := range s.Call.Args {
				if containsRecv(a) {
					unsup(s, "receive in defer arguments")
				}
			}
		}
		c.exprFuncLits(s.Call)
		return []ast.Stmt{s}
	case *ast.ExprStmt:
		if r := recvOf(s.X); r != nil {
			ch, pre := c.hoistChan(r.X)
			r.X = ch
			return append(pre, c.recvWrap(ch, s)...)
		}
		return c.generic(s)
	case *ast.AssignStmt:
		if optMapOrder {
			// m[ch] = v with a channel-typed key: register the channel so that sorted iteration over
			// m (R5) has a deterministic order (order of insertion) instead of address order
			var notes []ast.Stmt
			for _, l := range s.Lhs {
				ix, ok := l.(*ast.IndexExpr)
				if !ok || !isMap(ix.X) {
					continue
				}
				mt := info.TypeOf(ix.X).Underlying().(*types.Map)
				if _, isCh := mt.Key().Underlying().(*types.Chan); !isCh {
					continue
				}
				if !simple(ix.Index) {
					unsup(s, "insertion into a channel-keyed map with a non-simple key expression")
					continue
				}
				c.needSched = true
				notes = append(notes, callStmt("vsched", "NoteChan", ix.Index))
			}
			if len(notes) > 0 {
				return append(notes, c.generic(s)...)
			}
		}
		if len(s.Rhs) == 1 {
			if r := recvOf(s.Rhs[0]); r != nil {
				ch, pre := c.hoistChan(r.X)
				r.X = ch
				for _, l := range s.Lhs {
					if !simple(l) {
						unsup(s, "receive assigned to non-simple lvalue")
					}
				}
				return append(pre, c.recvWrap(ch, s)...)
			}
		}
		return c.generic(s)
	case *ast.DeclStmt:
		if gd, ok := s.Decl.(*ast.GenDecl); ok && gd.Tok == token.VAR && len(gd.Specs) == 1 {
			vs := gd.Specs[0].(*ast.ValueSpec)
			if len(vs.Values) == 1 {
				if r := recvOf(vs.Values[0]); r != nil {
					ch, pre := c.hoistChan(r.X)
					r.X = ch
					return append(pre, c.recvWrap(ch, s)...)
				}
			}
		}
		return c.generic(s)
	case *ast.ReturnStmt:
		return c.generic(s)
	default:
		return c.generic(s)
	}
}

func isSend(s ast.Stmt) bool {
	_, ok := s.(*ast.SendStmt)
	return ok
}

// generic handles a statement whose expressions may contain nested receives (hoisted when the
// receive is the first thing evaluated) and function literals.
func (c *fileCtx) generic(s ast.Stmt) []ast.Stmt {
	var pre []ast.Stmt
	if containsRecv(s) {
		pre = c.hoistNestedRecv(s)
	}
	c.exprFuncLits(s)
	out := append(pre, c.fsPoint(s)...)
	return out
}

// hoistNestedRecv replaces receive expressions nested in s by temporaries evaluated before s.
// Accepted shapes: the receive is a direct operand of return, or an argument of a call all of
// whose earlier operands are simple.
func (c *fileCtx) hoistNestedRecv(s ast.Stmt) []ast.Stmt {
	var pre []ast.Stmt
	ok := true
	var visitExprs func(list []ast.Expr, callee ast.Expr)
	visitExprs = func(list []ast.Expr, callee ast.Expr) {
		if callee != nil && !simple(callee) {
			if _, isLit := callee.(*ast.FuncLit); !isLit && containsRecvInList(list) {
				ok = false
			}
		}
		seenComplex := false
		for i, e := range list {
			if r := recvOf(e); r != nil {
				if seenComplex {
					ok = false
					return
				}
				ch, h := c.hoistChan(r.X)
				r.X = ch
				id := tmp("r")
				pre = append(pre, h...)
				pre = append(pre, c.recvWrap(ch, define(id, r))...)
				list[i] = id
				continue
			}
			if containsRecv(e) {
				// one level of nesting: call argument
				if call, isCall := e.(*ast.CallExpr); isCall && !seenComplex {
					visitExprs(call.Args, call.Fun)
					if !simple(call.Fun) {
						seenComplex = true
					}
					seenComplex = true
					continue
				}
				ok = false
				return
			}
			if !simple(e) && !isFuncLit(e) {
				seenComplex = true
			}
		}
	}
	switch s := s.(type) {
	case *ast.ReturnStmt:
		visitExprs(s.Results, nil)
	case *ast.ExprStmt:
		if call, isCall := s.X.(*ast.CallExpr); isCall {
			visitExprs(call.Args, call.Fun)
		} else {
			ok = false
		}
	case *ast.AssignStmt:
		for _, l := range s.Lhs {
			if !simple(l) {
				ok = false
			}
		}
		visitExprs(s.Rhs, nil)
	default:
		ok = false
	}
	if !ok || containsRecvOutsideFuncLit(s) {
		unsup(s, "receive nested in an expression that cannot be hoisted soundly")
	}
	return pre
}

func isFuncLit(e ast.Expr) bool {
	_, ok := e.(*ast.FuncLit)
	return ok
}

func containsRecvInList(list []ast.Expr) bool {
	for _, e := range list {
		if containsRecv(e) {
			return true
		}
	}
	return false
}

func containsRecvOutsideFuncLit(s ast.Stmt) bool { return containsRecv(s) }

func (c *fileCtx) ifStmt(s *ast.IfStmt) []ast.Stmt {
	var pre []ast.Stmt
	wrap := false
	// R6: filesystem calls in the initialiser / condition get their point before the if statement
	// (labels are assigned here, before the body is visited: source order)
	fsPre := c.fsPrepare(s.Init, s.Cond)
	if s.Init != nil && (containsRecv(s.Init) || isSend(s.Init)) {
		init := c.stmt(s.Init)
		pre = append(pre, init...)
		s.Init = nil
		wrap = true
	} else if s.Init != nil {
		c.exprFuncLits(s.Init)
	}
	if containsRecv(s.Cond) {
		if r := recvOf(s.Cond); r != nil && s.Init == nil {
			ch, h := c.hoistChan(r.X)
			r.X = ch
			id := tmp("r")
			pre = append(pre, h...)
			pre = append(pre, c.recvWrap(ch, define(id, r))...)
			s.Cond = id
			wrap = true
		} else {
			unsup(s, "receive nested in if condition")
		}
	}
	c.exprFuncLits(s.Cond)
	c.block(s.Body)
	switch e := s.Else.(type) {
	case *ast.BlockStmt:
		c.block(e)
	case *ast.IfStmt:
		r := c.ifStmt(e)
		if len(r) == 1 {
			s.Else = r[0]
		} else {
			s.Else = &ast.BlockStmt{List: r}
		}
	}
	if wrap {
		return []ast.Stmt{&ast.BlockStmt{List: append(append(fsPre, pre...), s)}}
	}
	return append(fsPre, s)
}

func (c *fileCtx) sendStmt(s *ast.SendStmt) []ast.Stmt {
	c.needSched = true
	var pre []ast.Stmt
	ch, h := c.hoistChan(s.Chan)
	pre = append(pre, h...)
	s.Chan = ch
	if containsCall(s.Value) && !isConstOrNil(s.Value) {
		if r := recvOf(s.Value); r != nil {
			ch2, h2 := c.hoistChan(r.X)
			r.X = ch2
			id := tmp("r")
			pre = append(pre, h2...)
			pre = append(pre, c.recvWrap(ch2, define(id, r))...)
			s.Value = id
		} else if containsRecv(s.Value) {
			unsup(s, "receive nested in send value")
		} else {
			c.exprFuncLits(s.Value)
			id := tmp("s")
			pre = append(pre, define(id, s.Value))
			s.Value = id
		}
	} else {
		c.exprFuncLits(s.Value)
	}
	return append(pre, callStmt("vsched", "Send", ch), s, callStmt("vsched", "Post"))
}

func (c *fileCtx) goStmt(s *ast.GoStmt) []ast.Stmt {
	c.needSched = true
	call := s.Call
	var pre []ast.Stmt
	switch fun := call.Fun.(type) {
	case *ast.FuncLit:
		fun.Body = c.block(fun.Body)
	default:
		hoist := true
		if id, ok := fun.(*ast.Ident); ok {
			if obj, ok := info.Uses[id].(*types.Func); ok && obj.Type().(*types.Signature).Recv() == nil {
				hoist = false
			}
		}
		if se, ok := fun.(*ast.SelectorExpr); ok {
			if id, ok := se.X.(*ast.Ident); ok {
				if _, isPkg := info.Uses[id].(*types.PkgName); isPkg {
					hoist = false
				}
			}
		}
		if hoist {
			id := tmp("f")
			pre = append(pre, define(id, fun))
			call.Fun = id
		}
	}
	for i, a := range call.Args {
		if isConstOrNil(a) {
			continue
		}
		if containsRecv(a) {
			unsup(s, "receive in go statement argument")
		}
		c.exprFuncLits(a)
		id := tmp("a")
		pre = append(pre, define(id, a))
		call.Args[i] = id
	}
	body := &ast.BlockStmt{List: []ast.Stmt{&ast.ExprStmt{X: call}}}
	lit := &ast.FuncLit{Type: &ast.FuncType{Params: &ast.FieldList{}}, Body: body}
	goCall := callStmt("vsched", "Go", lit)
	return []ast.Stmt{&ast.BlockStmt{List: append(pre, goCall)}}
}

func (c *fileCtx) rangeStmt(s *ast.RangeStmt) []ast.Stmt {
	c.exprFuncLits(s.X)
	if isChan(s.X) {
		c.needSched = true
		ch, pre := c.hoistChan(s.X)
		okID := tmp("ok")
		var recvStmt ast.Stmt
		recv := &ast.UnaryExpr{Op: token.ARROW, X: ch}
		var decl []ast.Stmt
		switch {
		case s.Key == nil:
			recvStmt = &ast.AssignStmt{Lhs: []ast.Expr{ast.NewIdent("_"), okID}, Tok: token.DEFINE, Rhs: []ast.Expr{recv}}
		case s.Tok == token.DEFINE:
			recvStmt = &ast.AssignStmt{Lhs: []ast.Expr{s.Key, okID}, Tok: token.DEFINE, Rhs: []ast.Expr{recv}}
		default:
			decl = append(decl, &ast.DeclStmt{Decl: &ast.GenDecl{Tok: token.VAR, Specs: []ast.Spec{&ast.ValueSpec{Names: []*ast.Ident{okID}, Type: ast.NewIdent("bool")}}}})
			recvStmt = &ast.AssignStmt{Lhs: []ast.Expr{s.Key, okID}, Tok: token.ASSIGN, Rhs: []ast.Expr{recv}}
		}
		brk := &ast.IfStmt{Cond: &ast.UnaryExpr{Op: token.NOT, X: okID}, Body: &ast.BlockStmt{List: []ast.Stmt{&ast.BranchStmt{Tok: token.BREAK}}}}
		body := c.block(s.Body)
		list := append(decl, callStmt("vsched", "Recv", ch), recvStmt, callStmt("vsched", "Post"), brk)
		// the body is wrapped so that variables it declares cannot clash with the loop prologue
		list = append(list, body.List...)
		loop := &ast.ForStmt{Body: &ast.BlockStmt{List: list}}
		return append(pre, loop)
	}
	if optMapOrder && isMap(s.X) && s.Key != nil {
		return c.mapRange(s)
	}
	c.block(s.Body)
	return []ast.Stmt{s}
}

func (c *fileCtx) qualifier(p *types.Package) string {
	if p == pkgTypes {
		return ""
	}
	for _, imp := range c.file.Imports {
		path, _ := strconv.Unquote(imp.Path.Value)
		if path == p.Path() || (p.Path() == "sync" && path == shimBase+"vsync") || (p.Path() == "time" && path == shimBase+"vtime") {
			if imp.Name != nil {
				return imp.Name.Name
			}
			return p.Name()
		}
	}
	return "\x00MISSING-IMPORT:" + p.Path()
}

// mapRange: for k, v := range m  ->  for _, k := range vsched.SortedKeys(m).([]K) { v, ok := m[k]; if !ok {continue}; body }
func (c *fileCtx) mapRange(s *ast.RangeStmt) []ast.Stmt {
	c.needSched = true
	mt := info.TypeOf(s.X).Underlying().(*types.Map)
	kts := types.TypeString(mt.Key(), c.qualifier)
	if strings.Contains(kts, "\x00") {
		unsup(s, "map key type needs an import this file lacks: "+kts)
		c.block(s.Body)
		return []ast.Stmt{s}
	}
	if s.Tok != token.DEFINE {
		unsup(s, "map range with = instead of :=")
		c.block(s.Body)
		return []ast.Stmt{s}
	}
	m, pre := c.hoistChan(s.X) // same hoisting rule as for channels
	ktExpr, err := parseType(kts)
	if err != nil {
		unsup(s, "cannot render map key type "+kts)
		return []ast.Stmt{s}
	}
	keys := &ast.TypeAssertExpr{
		X:    &ast.CallExpr{Fun: sel("vsched", "SortedKeys"), Args: []ast.Expr{m}},
		Type: &ast.ArrayType{Elt: ktExpr},
	}
	body := c.block(s.Body)
	var head []ast.Stmt
	keyIdent, _ := s.Key.(*ast.Ident)
	if keyIdent == nil {
		unsup(s, "map range key is not an identifier")
		return []ast.Stmt{s}
	}
	loopKey := keyIdent
	if keyIdent.Name == "_" {
		loopKey = tmp("k")
	}
	okID := tmp("ok")
	var val ast.Expr = ast.NewIdent("_")
	if s.Value != nil {
		val = s.Value
	}
	head = append(head,
		&ast.AssignStmt{Lhs: []ast.Expr{val, okID}, Tok: token.DEFINE, Rhs: []ast.Expr{&ast.IndexExpr{X: m, Index: loopKey}}},
		&ast.IfStmt{Cond: &ast.UnaryExpr{Op: token.NOT, X: okID}, Body: &ast.BlockStmt{List: []ast.Stmt{&ast.BranchStmt{Tok: token.CONTINUE}}}},
	)
	if id, ok := val.(*ast.Ident); ok && id.Name == "_" {
		head[0] = &ast.AssignStmt{Lhs: []ast.Expr{ast.NewIdent("_"), okID}, Tok: token.DEFINE, Rhs: []ast.Expr{&ast.IndexExpr{X: m, Index: loopKey}}}
	}
	loop := &ast.RangeStmt{Key: ast.NewIdent("_"), Value: loopKey, Tok: token.DEFINE, X: keys,
		Body: &ast.BlockStmt{List: append(head, body.List...)}}
	return append(pre, loop)
}

func parseType(s string) (ast.Expr, error) {
	// small subset: identifiers, qualified identifiers, pointers
	if strings.HasPrefix(s, "*") {
		x, err := parseType(s[1:])
		if err != nil {
			return nil, err
		}
		return &ast.StarExpr{X: x}, nil
	}
	if strings.HasPrefix(s, "<-chan ") || strings.HasPrefix(s, "chan ") || strings.HasPrefix(s, "chan<- ") {
		// channel types (maps keyed by channels, e.g. subscriber tables); element type restricted to
		// what the Go parser accepts as a type expression without package-local context
		x, err := parser.ParseExpr(s)
		if err != nil {
			return nil, fmt.Errorf("unsupported type %q: %v", s, err)
		}
		if _, ok := x.(*ast.ChanType); !ok {
			return nil, fmt.Errorf("unsupported type %q", s)
		}
		return x, nil
	}
	if strings.ContainsAny(s, " []{}()") {
		return nil, fmt.Errorf("unsupported type %q", s)
	}
	if i := strings.LastIndex(s, "."); i >= 0 {
		return sel(s[:i], s[i+1:]), nil
	}
	return ast.NewIdent(s), nil
}

func (c *fileCtx) selectStmt(s *ast.SelectStmt) []ast.Stmt {
	c.needSched = true
	var pre []ast.Stmt
	var cases []ast.Expr
	hasDefault := false
	type clauseInfo struct {
		cl   *ast.CommClause
		orig ast.Stmt // copy of the comm statement for the pass-through select
	}
	var clauses []clauseInfo
	idx := 0
	sw := &ast.SwitchStmt{Body: &ast.BlockStmt{}}
	passthrough := &ast.SelectStmt{Body: &ast.BlockStmt{}}
	for _, cc := range s.Body.List {
		cl := cc.(*ast.CommClause)
		body := c.stmts(cl.Body)
		if cl.Comm == nil {
			hasDefault = true
			sw.Body.List = append(sw.Body.List, &ast.CaseClause{List: []ast.Expr{intLit(-1)}, Body: body})
			passthrough.Body.List = append(passthrough.Body.List, &ast.CommClause{Body: body})
			continue
		}
		var dir byte
		var chExpr *ast.Expr
		switch comm := cl.Comm.(type) {
		case *ast.SendStmt:
			dir = 's'
			chExpr = &comm.Chan
			if !simple(comm.Value) && !isConstOrNil(comm.Value) {
				if containsRecv(comm.Value) {
					unsup(comm, "receive in select send value")
				}
				c.exprFuncLits(comm.Value)
				id := tmp("s")
				pre = append(pre, define(id, comm.Value))
				comm.Value = id
			}
		case *ast.ExprStmt:
			r := recvOf(comm.X)
			if r == nil {
				unsup(comm, "select case is not a channel operation")
				continue
			}
			dir = 'r'
			chExpr = &r.X
		case *ast.AssignStmt:
			r := recvOf(comm.Rhs[0])
			if r == nil {
				unsup(comm, "select case is not a channel operation")
				continue
			}
			dir = 'r'
			chExpr = &r.X
		default:
			unsup(cl, "unknown select comm clause")
			continue
		}
		if !simple(*chExpr) {
			id := tmp("ch")
			pre = append(pre, define(id, *chExpr))
			*chExpr = id
		}
		cases = append(cases, &ast.CompositeLit{Type: sel("vsched", "SelCase"), Elts: []ast.Expr{
			&ast.BasicLit{Kind: token.CHAR, Value: "'" + string(dir) + "'"}, *chExpr}})
		caseBody := append([]ast.Stmt{cl.Comm, callStmt("vsched", "Post")}, body...)
		sw.Body.List = append(sw.Body.List, &ast.CaseClause{List: []ast.Expr{intLit(idx)}, Body: caseBody})
		passthrough.Body.List = append(passthrough.Body.List, &ast.CommClause{Comm: cl.Comm, Body: body})
		clauses = append(clauses, clauseInfo{cl: cl})
		idx++
	}
	_ = clauses
	args := []ast.Expr{ast.NewIdent(strconv.FormatBool(hasDefault))}
	args = append(args, cases...)
	sw.Tag = &ast.CallExpr{Fun: sel("vsched", "Select"), Args: args}
	sw.Body.List = append(sw.Body.List, &ast.CaseClause{List: []ast.Expr{intLit(-2)}, Body: []ast.Stmt{passthrough}})
	// a default clause that panics keeps the switch a terminating statement whenever the select was
	sw.Body.List = append(sw.Body.List, &ast.CaseClause{Body: []ast.Stmt{&ast.ExprStmt{X: &ast.CallExpr{Fun: ast.NewIdent("panic"),
		Args: []ast.Expr{&ast.BasicLit{Kind: token.STRING, Value: strconv.Quote("vsched: impossible select result")}}}}}})
	if len(pre) > 0 {
		return []ast.Stmt{&ast.BlockStmt{List: append(pre, sw)}}
	}
	return []ast.Stmt{sw}
}

func intLit(n int) ast.Expr {
	if n < 0 {
		return &ast.UnaryExpr{Op: token.SUB, X: &ast.BasicLit{Kind: token.INT, Value: strconv.Itoa(-n)}}
	}
	return &ast.BasicLit{Kind: token.INT, Value: strconv.Itoa(n)}
}

// R6 (-fspoints files).  Every call that is a filesystem step — os.*, ioutil.*, syscall.*,
// methods of the volume's os wrapper (v.os.X, labelled os.X), (*os.File).Close/Readdir/
// Readdirnames/Write/Sync/Truncate/Stat, filepath.Walk — is preceded by
// vfs.Point("<func>:<callee>#<n>") (n = ordinal of that callee within the function, in source
// order; never a line number).  The point is placed before the *statement* that contains the call;
// for `if init; cond {` before the if statement (an `else if` is wrapped into `else { point; if }`).
// Special shapes:
//   io.Copy(dst, src) with dst an *os.File  -> io.Copy(vfs.Writer("<func>:File.Write#n", dst), src):
//       a point before every data write (and, in kill mode, a kill after a prefix of the chunk)
//   syscall.Flock(fd, how)                  -> point + vfs.Flock(fd, how) (a blocking lock request
//       becomes a scheduling-aware wait; the kernel stays the source of truth)
//   filepath.Walk(root, func...)            -> point before the statement and at the start of the
//       callback (one per visited entry)
//   io.Pipe()                               -> vfs.Pipe() (R7: same method set, scheduler aware)
//   defer f.Close() etc.                    -> no point (a deferred close has no effect another
//       step could observe; process death closes descriptors anyway)
// Methods of osWithStats itself get no points (their call sites do).  A filesystem call in any
// other position (for/switch/range headers, go/send operands ...) is UNSUPPORTED.
func fsCallee(call *ast.CallExpr) string {
	se, ok := call.Fun.(*ast.SelectorExpr)
	if !ok {
		return ""
	}
	if id, ok := se.X.(*ast.Ident); ok {
		if pn, ok := info.Uses[id].(*types.PkgName); ok {
			if tv, ok := info.Types[call.Fun]; ok && tv.IsType() {
				return "" // conversion such as os.FileMode(0644)
			}
			name := se.Sel.Name
			switch pn.Imported().Path() {
			case "os":
				switch name {
				case "IsNotExist", "IsExist", "IsPermission", "IsTimeout", "Getpid", "Getenv", "LookupEnv",
					"Exit", "NewFile", "Getuid", "Getgid", "Hostname", "Expand", "ExpandEnv",
					"NewSyscallError", "SameFile":
					return ""
				}
				return "os." + name
			case "io/ioutil":
				switch name {
				case "NopCloser", "ReadAll":
					return ""
				}
				return "ioutil." + name
			case "syscall":
				return "syscall." + name
			case "path/filepath":
				if name == "Walk" {
					return "filepath.Walk"
				}
			case "io":
				if name == "Copy" && len(call.Args) == 2 && isOSFile(call.Args[0]) {
					return copyToFile
				}
			}
			return ""
		}
	}
	if t := info.TypeOf(se.X); t != nil {
		ts := t.String()
		if ts == "*os.File" {
			switch se.Sel.Name {
			case "Close", "Readdir", "Readdirnames", "Write", "Sync", "Truncate", "Stat":
				return "File." + se.Sel.Name
			}
		} else if strings.HasSuffix(ts, "osWithStats") {
			return "os." + se.Sel.Name
		}
	}
	return ""
}

// copyToFile marks io.Copy(<*os.File>, src); its points are labelled File.Write.
const copyToFile = "io.Copy>File"

func isOSFile(e ast.Expr) bool {
	t := info.TypeOf(e)
	return t != nil && t.String() == "*os.File"
}

func isIOPipe(call *ast.CallExpr) bool {
	se, ok := call.Fun.(*ast.SelectorExpr)
	if !ok || se.Sel.Name != "Pipe" || len(call.Args) != 0 {
		return false
	}
	id, ok := se.X.(*ast.Ident)
	if !ok {
		return false
	}
	pn, ok := info.Uses[id].(*types.PkgName)
	return ok && pn.Imported().Path() == "io"
}

func strLit(s string) ast.Expr {
	return &ast.BasicLit{Kind: token.STRING, Value: strconv.Quote(s)}
}

func (c *fileCtx) fsLabel(callee string) string {
	key := c.funcName + ":" + callee
	c.fsCount[key]++
	return fmt.Sprintf("%s#%d", key, c.fsCount[key])
}

// fsPrepare rewrites the filesystem calls found in the given nodes (function literals excluded:
// their bodies are visited as statements) and returns the vfs.Point statements that must run
// immediately before the statement the nodes belong to.
func (c *fileCtx) fsPrepare(nodes ...ast.Node) []ast.Stmt {
	if !c.fsPoints || c.skipFS {
		return nil
	}
	var pts []ast.Stmt
	for _, n := range nodes {
		if n == nil || reflect.ValueOf(n).IsNil() {
			continue
		}
		ast.Inspect(n, func(m ast.Node) bool {
			switch m := m.(type) {
			case *ast.FuncLit:
				return false
			case *ast.CallExpr:
				if c.covered[m] {
					return true
				}
				if isIOPipe(m) {
					c.covered[m] = true
					c.needVfs = true
					m.Fun = sel("vfs", "Pipe")
					return true
				}
				callee := fsCallee(m)
				if callee == "" {
					return true
				}
				c.covered[m] = true
				c.needVfs = true
				if callee == copyToFile {
					label := c.fsLabel("File.Write")
					m.Args[0] = &ast.CallExpr{Fun: sel("vfs", "Writer"), Args: []ast.Expr{strLit(label), m.Args[0]}}
					return true
				}
				label := c.fsLabel(callee)
				switch callee {
				case "syscall.Flock":
					pts = append(pts, callStmt("vfs", "Point", strLit(label)))
					m.Fun = sel("vfs", "Flock")
				case "filepath.Walk":
					pts = append(pts, callStmt("vfs", "Point", strLit(label)))
					for _, a := range m.Args {
						if fl, ok := a.(*ast.FuncLit); ok {
							p := callStmt("vfs", "Point", strLit(c.fsLabel("filepath.Walk.fn")))
							fl.Body.List = append([]ast.Stmt{p}, fl.Body.List...)
						}
					}
				default:
					pts = append(pts, callStmt("vfs", "Point", strLit(label)))
				}
			}
			return true
		})
	}
	return pts
}

func (c *fileCtx) fsPoint(s ast.Stmt) []ast.Stmt {
	return append(c.fsPrepare(s), s)
}

// verifyFS fails loudly for filesystem calls that ended up without a point.
func (c *fileCtx) verifyFS(body ast.Node) {
	ast.Inspect(body, func(m ast.Node) bool {
		switch m := m.(type) {
		case *ast.DeferStmt:
			c.exempt[m.Call] = true
		case *ast.CallExpr:
			if c.covered[m] || c.exempt[m] {
				return true
			}
			if callee := fsCallee(m); callee != "" {
				unsup(m, "filesystem call "+callee+" in a position that gets no vfs point")
			} else if isIOPipe(m) {
				unsup(m, "io.Pipe() in a position verifgen does not rewrite")
			}
		}
		return true
	})
}

var _ = json.Marshal
