#include <security/pam_appl.h>
int pam_start(const char *s, const char *u, const struct pam_conv *c, pam_handle_t **h) { *h = 0; return PAM_SYSTEM_ERR; }
int pam_end(pam_handle_t *h, int s) { return PAM_SUCCESS; }
int pam_set_item(pam_handle_t *h, int i, const void *v) { return PAM_SYSTEM_ERR; }
int pam_get_item(const pam_handle_t *h, int i, const void **v) { *v = 0; return PAM_SYSTEM_ERR; }
const char *pam_strerror(pam_handle_t *h, int e) { return "pam stub"; }
int pam_authenticate(pam_handle_t *h, int f) { return PAM_SYSTEM_ERR; }
int pam_setcred(pam_handle_t *h, int f) { return PAM_SYSTEM_ERR; }
int pam_acct_mgmt(pam_handle_t *h, int f) { return PAM_SYSTEM_ERR; }
int pam_chauthtok(pam_handle_t *h, int f) { return PAM_SYSTEM_ERR; }
int pam_open_session(pam_handle_t *h, int f) { return PAM_SYSTEM_ERR; }
int pam_close_session(pam_handle_t *h, int f) { return PAM_SYSTEM_ERR; }
int pam_putenv(pam_handle_t *h, const char *nv) { return PAM_SYSTEM_ERR; }
const char *pam_getenv(pam_handle_t *h, const char *n) { return 0; }
char **pam_getenvlist(pam_handle_t *h) { return 0; }
