/* Minimal stand-in for <security/pam_appl.h>: only what
 * github.com/msteinert/pam needs to COMPILE. Every call fails with
 * PAM_SYSTEM_ERR. For offline test builds only. */
#ifndef SEED_PAM_APPL_STUB_H
#define SEED_PAM_APPL_STUB_H
#include <stdlib.h>
#define PAM_SUCCESS 0
#define PAM_SYSTEM_ERR 4
#define PAM_BUF_ERR 5
#define PAM_CONV_ERR 19
#define PAM_PROMPT_ECHO_OFF 1
#define PAM_PROMPT_ECHO_ON 2
#define PAM_ERROR_MSG 3
#define PAM_TEXT_INFO 4
#define PAM_MAX_NUM_MSG 32
#define PAM_SERVICE 1
#define PAM_USER 2
#define PAM_TTY 3
#define PAM_RHOST 4
#define PAM_CONV 5
#define PAM_AUTHTOK 6
#define PAM_OLDAUTHTOK 7
#define PAM_RUSER 8
#define PAM_USER_PROMPT 9
#define PAM_SILENT 0x8000
#define PAM_DISALLOW_NULL_AUTHTOK 0x0001
#define PAM_ESTABLISH_CRED 0x0002
#define PAM_DELETE_CRED 0x0004
#define PAM_REINITIALIZE_CRED 0x0008
#define PAM_REFRESH_CRED 0x0010
#define PAM_CHANGE_EXPIRED_AUTHTOK 0x0020
typedef struct pam_handle pam_handle_t;
struct pam_message { int msg_style; const char *msg; };
struct pam_response { char *resp; int resp_retcode; };
struct pam_conv {
	int (*conv)(int, const struct pam_message **, struct pam_response **, void *);
	void *appdata_ptr;
};
int pam_start(const char *, const char *, const struct pam_conv *, pam_handle_t **);
int pam_end(pam_handle_t *, int);
int pam_set_item(pam_handle_t *, int, const void *);
int pam_get_item(const pam_handle_t *, int, const void **);
const char *pam_strerror(pam_handle_t *, int);
int pam_authenticate(pam_handle_t *, int);
int pam_setcred(pam_handle_t *, int);
int pam_acct_mgmt(pam_handle_t *, int);
int pam_chauthtok(pam_handle_t *, int);
int pam_open_session(pam_handle_t *, int);
int pam_close_session(pam_handle_t *, int);
int pam_putenv(pam_handle_t *, const char *);
const char *pam_getenv(pam_handle_t *, const char *);
char **pam_getenvlist(pam_handle_t *);
#endif
