// +build verif

// Package vtime stands in for package time in instrumented code (verifgen rewrites the import):
// clock reads, sleeps, timers and tickers belong to the controlled scheduler's virtual clock;
// everything else is the real package.
package vtime

import (
	"time"

	"git.arvados.org/arvados.git/lib/verifshim/vsched"
)

type Time = time.Time
type Duration = time.Duration
type Month = time.Month
type Weekday = time.Weekday
type Location = time.Location
type ParseError = time.ParseError
type Timer = vsched.Timer
type Ticker = vsched.Ticker

const (
	Nanosecond  = time.Nanosecond
	Microsecond = time.Microsecond
	Millisecond = time.Millisecond
	Second      = time.Second
	Minute      = time.Minute
	Hour        = time.Hour

	ANSIC       = time.ANSIC
	UnixDate    = time.UnixDate
	RubyDate    = time.RubyDate
	RFC822      = time.RFC822
	RFC822Z     = time.RFC822Z
	RFC850      = time.RFC850
	RFC1123     = time.RFC1123
	RFC1123Z    = time.RFC1123Z
	RFC3339     = time.RFC3339
	RFC3339Nano = time.RFC3339Nano
	Kitchen     = time.Kitchen
	Stamp       = time.Stamp
	StampMilli  = time.StampMilli
	StampMicro  = time.StampMicro
	StampNano   = time.StampNano

	January   = time.January
	February  = time.February
	March     = time.March
	April     = time.April
	May       = time.May
	June      = time.June
	July      = time.July
	August    = time.August
	September = time.September
	October   = time.October
	November  = time.November
	December  = time.December

	Sunday    = time.Sunday
	Monday    = time.Monday
	Tuesday   = time.Tuesday
	Wednesday = time.Wednesday
	Thursday  = time.Thursday
	Friday    = time.Friday
	Saturday  = time.Saturday
)

var (
	UTC   = time.UTC
	Local = time.Local
)

func Now() Time                                  { return vsched.Now() }
func Since(t Time) Duration                      { return vsched.Since(t) }
func Until(t Time) Duration                      { return vsched.Until(t) }
func Sleep(d Duration)                           { vsched.Sleep(d) }
func After(d Duration) <-chan Time               { return vsched.After(d) }
func AfterFunc(d Duration, f func()) *Timer      { return vsched.AfterFunc(d, f) }
func NewTimer(d Duration) *Timer                 { return vsched.NewTimer(d) }
func NewTicker(d Duration) *Ticker               { return vsched.NewTicker(d) }
func Tick(d Duration) <-chan Time                { return vsched.Tick(d) }
func Date(year int, month Month, day, hour, min, sec, nsec int, loc *Location) Time {
	return time.Date(year, month, day, hour, min, sec, nsec, loc)
}
func Unix(sec int64, nsec int64) Time                         { return time.Unix(sec, nsec) }
func Parse(layout, value string) (Time, error)                { return time.Parse(layout, value) }
func ParseDuration(s string) (Duration, error)                { return time.ParseDuration(s) }
func ParseInLocation(l, v string, loc *Location) (Time, error) { return time.ParseInLocation(l, v, loc) }
func LoadLocation(name string) (*Location, error)             { return time.LoadLocation(name) }
func FixedZone(name string, offset int) *Location             { return time.FixedZone(name, offset) }
