// +build verif

// Package vfed is the reference side of the federation checks (C18): an independent manifest
// tokenizer, the portable-data-hash definition and the "+A -> +R<cluster>-" rewrite relation written
// from the property statement, a generator of manifests with signed / unsigned / multiply hinted
// locators on top of vgen, and the single-token tampering classes.  Nothing here imports code under
// test.  go1.13 language subset.
package vfed

import (
	"crypto/md5"
	"crypto/sha1"
	"fmt"
	"strconv"
	"strings"

	"git.arvados.org/arvados.git/lib/verifshim/vgen"
)

// ---------------------------------------------------------------------------------------------
// tokenizer (lossless: Join(Split(t)) == t)

// Split cuts text at every "\n" and every line at every " ".  A text that ends with "\n" yields a
// final empty line, so that Join restores the text byte for byte.
func Split(text string) [][]string {
	var out [][]string
	for _, line := range strings.Split(text, "\n") {
		out = append(out, strings.Split(line, " "))
	}
	return out
}

func Join(lines [][]string) string {
	parts := make([]string, len(lines))
	for i, l := range lines {
		parts[i] = strings.Join(l, " ")
	}
	return strings.Join(parts, "\n")
}

func isHex(s string, lower bool) bool {
	for i := 0; i < len(s); i++ {
		c := s[i]
		switch {
		case c >= '0' && c <= '9':
		case c >= 'a' && c <= 'f':
		case !lower && c >= 'A' && c <= 'F':
		default:
			return false
		}
	}
	return true
}

func allDigits(s string) bool {
	if s == "" {
		return false
	}
	for i := 0; i < len(s); i++ {
		if s[i] < '0' || s[i] > '9' {
			return false
		}
	}
	return true
}

func hintOK(h string) bool {
	if h == "" || h[0] < 'A' || h[0] > 'Z' {
		return false
	}
	for i := 1; i < len(h); i++ {
		c := h[i]
		switch {
		case c >= '0' && c <= '9', c >= 'a' && c <= 'z', c >= 'A' && c <= 'Z', c == '@', c == '_', c == '-':
		default:
			return false
		}
	}
	return true
}

// IsLocator: <32 lower-case hex>+<digits>(+<Upper><[A-Za-z0-9@_-]*>)*
func IsLocator(tok string) bool {
	p := strings.Split(tok, "+")
	if len(p) < 2 || len(p[0]) != 32 || !isHex(p[0], true) || !allDigits(p[1]) {
		return false
	}
	for _, h := range p[2:] {
		if !hintOK(h) {
			return false
		}
	}
	return true
}

// IsSignature: A<40 hex>@<8 hex> (the hint without its leading '+').
func IsSignature(h string) bool {
	return len(h) == 1+40+1+8 && h[0] == 'A' && h[41] == '@' && isHex(h[1:41], true) && isHex(h[42:], true)
}

// RefPDH is the portable data hash by definition: MD5 of the text in which every block locator
// (a token after the first of its line that has locator shape) is cut down to hash+size, followed
// by "+" and the length of that stripped text.
func RefPDH(text string) string {
	lines := Split(text)
	for _, l := range lines {
		for i := 1; i < len(l); i++ {
			if IsLocator(l[i]) {
				p := strings.SplitN(l[i], "+", 3)
				l[i] = p[0] + "+" + p[1]
			}
		}
	}
	s := Join(lines)
	return fmt.Sprintf("%x+%d", md5.Sum([]byte(s)), len(s))
}

// RefRewrite is the relayed form of what cluster sent: each +A<40 hex>@<8 hex> hint of a block
// locator becomes +R<cluster>-<40 hex>@<8 hex>; nothing else changes.
func RefRewrite(text, cluster string) string {
	lines := Split(text)
	for _, l := range lines {
		for i := 1; i < len(l); i++ {
			if !IsLocator(l[i]) {
				continue
			}
			p := strings.Split(l[i], "+")
			for j := 2; j < len(p); j++ {
				if IsSignature(p[j]) {
					p[j] = "R" + cluster + "-" + p[j][1:]
				}
			}
			l[i] = strings.Join(p, "+")
		}
	}
	return Join(lines)
}

// CheckRewrite compares, token by token, what a cluster sent (in) with what was relayed (out).
// It returns "" when out differs from in only in that each permission hint of a block locator
// became the remote form; otherwise a short class name and a description.  A hint that starts with
// 'A' but is not <40 hex>@<8 hex> is not a permission hint in the statement's sense: unchanged and
// rewritten are both accepted for it.
func CheckRewrite(in, out, cluster string) (class, detail string) {
	a, b := Split(in), Split(out)
	if len(a) != len(b) {
		return "line-structure", fmt.Sprintf("%d lines became %d", len(a)-1, len(b)-1)
	}
	for li := range a {
		if len(a[li]) != len(b[li]) {
			return "token-structure", fmt.Sprintf("line %d: %d tokens became %d", li+1, len(a[li]), len(b[li]))
		}
		for ti := range a[li] {
			x, y := a[li][ti], b[li][ti]
			if ti == 0 || !IsLocator(x) {
				if x != y {
					kind := "file-token"
					if ti == 0 {
						kind = "stream-name"
					}
					return kind + "-changed", fmt.Sprintf("line %d token %d: %q became %q", li+1, ti, x, y)
				}
				continue
			}
			p, q := strings.Split(x, "+"), strings.Split(y, "+")
			if len(p) != len(q) {
				return "hint-count", fmt.Sprintf("line %d token %d: %q became %q", li+1, ti, x, y)
			}
			if p[0] != q[0] || p[1] != q[1] {
				return "hash-or-size-changed", fmt.Sprintf("line %d token %d: %q became %q", li+1, ti, x, y)
			}
			for j := 2; j < len(p); j++ {
				switch {
				case IsSignature(p[j]):
					if q[j] != "R"+cluster+"-"+p[j][1:] {
						if q[j] == p[j] {
							return "signature-not-rewritten", fmt.Sprintf("line %d token %d: %q relayed as %q", li+1, ti, x, y)
						}
						return "signature-rewritten-wrongly", fmt.Sprintf("line %d token %d: %q became %q, want +R%s-%s", li+1, ti, x, y, cluster, p[j][1:])
					}
				case p[j] != "" && p[j][0] == 'A':
					if q[j] != p[j] && q[j] != "R"+cluster+"-"+p[j][1:] {
						return "other-hint-changed", fmt.Sprintf("line %d token %d: %q became %q", li+1, ti, x, y)
					}
				default:
					if q[j] != p[j] {
						return "other-hint-changed", fmt.Sprintf("line %d token %d: %q became %q", li+1, ti, x, y)
					}
				}
			}
		}
	}
	return "", ""
}

// ---------------------------------------------------------------------------------------------
// signatures and hint mixes

func SigHex(cluster string, n int) string {
	return fmt.Sprintf("%x", sha1.Sum([]byte("vfed-sig|"+cluster+"|"+strconv.Itoa(n))))
}

// Sig is "+A<40 hex>@<8 hex>", a function of the signing cluster and a counter.
func Sig(cluster string, n int) string {
	return "+A" + SigHex(cluster, n) + "@" + fmt.Sprintf("%08x", 0x5f000000+n)
}

// HintKinds names the hint mixes a generated locator can carry.
var HintKinds = []string{"none", "A", "K+A", "A+K", "K", "R", "K+A+K2", "A+A", "A+K+B", "K+A+K+B+C"}

// HintKinds3 is the reduced list used for streams of three locators.
var HintKinds3 = []string{"none", "A", "K+A+K+B+C", "A+A"}

// HintKindsLegacy: the mixes keepclient.SignedLocatorRe is written for (at most one signature).
func Hints(kind, cluster string, n int) string {
	switch kind {
	case "none":
		return ""
	case "A":
		return Sig(cluster, n)
	case "K+A":
		return "+Kzzzzz" + Sig(cluster, n)
	case "A+K":
		return Sig(cluster, n) + "+Kzzzzz"
	case "K":
		return "+Kzzzzz"
	case "R":
		// already a remote signature issued by a third cluster
		return "+Rzthrd-" + SigHex("zthrd", n) + "@" + fmt.Sprintf("%08x", 0x5f000000+n)
	case "K+A+K2":
		return "+Kzzzzz" + Sig(cluster, n) + "+Bq-_@9"
	case "A+A":
		return Sig(cluster, n) + Sig(cluster, n+1000)
	case "A+K+B":
		// two hints after the signature
		return Sig(cluster, n) + "+Kzzzzz" + "+Bq-_@9"
	case "K+A+K+B+C":
		// one hint before and three different hints after the signature
		return "+Kzzzzz" + Sig(cluster, n) + "+Kzaaaa" + "+Bq-_@9" + "+Cx9"
	}
	panic("vfed: unknown hint kind " + kind)
}

// Signed reports whether the mix contains a permission hint.
func Signed(kind string) bool {
	return strings.Contains(kind, "A")
}

// ---------------------------------------------------------------------------------------------
// manifest generator

// Shape is a manifest without its hints: stream names, blocks, file tokens.
type Shape struct {
	Name    string
	Streams []vgen.Stream
}

// NBlocks counts the locators of the shape.
func (s Shape) NBlocks() int {
	n := 0
	for _, st := range s.Streams {
		n += len(st.Blocks)
	}
	return n
}

// Text renders the shape with the given hint mix per locator (kinds[i] for locator i in text
// order), as signed by cluster.
func (s Shape) Text(kinds []string, cluster string) string {
	var m vgen.Manifest
	k := 0
	for _, st := range s.Streams {
		c := vgen.Stream{Name: st.Name, Files: st.Files}
		for _, b := range st.Blocks {
			b.Hints = Hints(kinds[k], cluster, k)
			k++
			c.Blocks = append(c.Blocks, b)
		}
		m = append(m, c)
	}
	return m.Text()
}

// trap names: things that look like hints or locators but sit in stream names and file tokens.
const (
	TrapStream = "./s+A0123456789abcdef0123456789abcdef01234567@5f000000"
	TrapFile   = "d41d8cd98f00b204e9800998ecf8427e+0+A0123456789abcdef0123456789abcdef01234567@5f000000"
)

func files(n int, names ...string) []vgen.FileTok {
	var out []vgen.FileTok
	for i, nm := range names {
		pos, l := 0, n
		if i > 0 {
			pos, l = n, 0
		}
		out = append(out, vgen.FileTok{Pos: pos, Len: l, Name: nm})
	}
	return out
}

// Shapes returns the shapes of a tier: every stream built from 1..maxBlocks blocks of the block
// alphabet with each file-token list, alone and (for a reduced set) as the second stream of a
// two-stream manifest.
func Shapes(thorough bool) []Shape {
	alpha := []vgen.BlockAlpha{{1, 3}, {2, 2}, {0, 0}}
	maxBlocks := 2
	if thorough {
		alpha = append(alpha, vgen.BlockAlpha{3, 5})
		maxBlocks = 3
	}
	names := []string{".", "./d", `./d\040e`, TrapStream}
	var out []Shape
	for _, blocks := range vgen.BlockTuples(alpha, maxBlocks) {
		n := 0
		for _, b := range blocks {
			n += b.Size
		}
		lists := [][]vgen.FileTok{files(n, "f"), files(n, "g+Ax", TrapFile), files(n, `a\040b`)}
		for ni, name := range names {
			for fi, fl := range lists {
				if ni > 1 && fi > 1 && !thorough {
					continue
				}
				out = append(out, Shape{
					Name:    fmt.Sprintf("1s/%s/b%d/f%d/#%d", name, len(blocks), fi, len(out)),
					Streams: []vgen.Stream{{Name: name, Blocks: blocks, Files: fl}},
				})
			}
		}
	}
	// the empty manifest
	out = append(out, Shape{Name: "empty"})
	// two streams: first stream fixed, second from the one-block shapes
	first := vgen.Stream{Name: ".", Blocks: []vgen.Block{{Variant: 1, Size: 3}}, Files: files(3, "f")}
	for _, blocks := range vgen.BlockTuples(alpha, 1) {
		for _, name := range names[1:] {
			out = append(out, Shape{
				Name:    fmt.Sprintf("2s/%s/#%d", name, len(out)),
				Streams: []vgen.Stream{first, {Name: name, Blocks: blocks, Files: files(blocks[0].Size, "g", TrapFile)}},
			})
		}
	}
	return out
}

// EachKinds enumerates every assignment of hint mixes to n locators (odometer, first mix first).
func EachKinds(n int, kinds []string, f func([]string)) {
	cur := make([]string, n)
	var rec func(i int)
	rec = func(i int) {
		if i == n {
			f(append([]string(nil), cur...))
			return
		}
		for _, k := range kinds {
			cur[i] = k
			rec(i + 1)
		}
	}
	rec(0)
}

// ---------------------------------------------------------------------------------------------
// tampering classes

// Tamper is one altered form of an honest manifest text.
type Tamper struct {
	Class string // token class of the statement
	Name  string // variant within the class
	Text  string
}

func firstLocator(lines [][]string, from int) (int, int) {
	seen := 0
	for li, l := range lines {
		for ti := 1; ti < len(l); ti++ {
			if IsLocator(l[ti]) {
				if seen == from {
					return li, ti
				}
				seen++
			}
		}
	}
	return -1, -1
}

func lastLocator(lines [][]string) (int, int) {
	rl, rt := -1, -1
	for li, l := range lines {
		for ti := 1; ti < len(l); ti++ {
			if IsLocator(l[ti]) {
				rl, rt = li, ti
			}
		}
	}
	return rl, rt
}

// Tamperings returns every single-token alteration of text (an honest, well-formed manifest) that
// the harnesses use.  Whether an alteration changes the portable data hash is decided by RefPDH,
// not by the class name (adding or dropping a hint does not).
func Tamperings(text string) []Tamper {
	var out []Tamper
	if text == "" {
		// the empty manifest (empty collection): only additions are possible
		return []Tamper{
			{"added-line", "stream-in-empty-manifest", ". d41d8cd98f00b204e9800998ecf8427e+0 0:0:x\n"},
			{"whitespace", "newline-in-empty-manifest", "\n"},
			{"whitespace", "space-in-empty-manifest", " "},
		}
	}
	add := func(class, name string, mut func(l [][]string) bool) {
		l := Split(text)
		if mut(l) {
			t := Join(l)
			if t != text {
				out = append(out, Tamper{Class: class, Name: name, Text: t})
			}
		}
	}
	flip := func(c byte) byte {
		if c == '0' {
			return '1'
		}
		return '0'
	}
	add("block-hash", "first-digit-of-first-locator", func(l [][]string) bool {
		li, ti := firstLocator(l, 0)
		if li < 0 {
			return false
		}
		b := []byte(l[li][ti])
		b[0] = flip(b[0])
		l[li][ti] = string(b)
		return true
	})
	add("block-hash", "last-digit-of-last-locator", func(l [][]string) bool {
		li, ti := lastLocator(l)
		if li < 0 {
			return false
		}
		b := []byte(l[li][ti])
		b[31] = flip(b[31])
		l[li][ti] = string(b)
		return true
	})
	add("block-hash", "upper-case-digit", func(l [][]string) bool {
		li, ti := firstLocator(l, 0)
		if li < 0 {
			return false
		}
		b := []byte(l[li][ti])
		for i := 0; i < 32; i++ {
			if b[i] >= 'a' && b[i] <= 'f' {
				b[i] -= 32
				l[li][ti] = string(b)
				return true
			}
		}
		return false
	})
	resize := func(name string, f func(string) string, which int) {
		add("size", name, func(l [][]string) bool {
			var li, ti int
			if which == 0 {
				li, ti = firstLocator(l, 0)
			} else {
				li, ti = lastLocator(l)
			}
			if li < 0 {
				return false
			}
			p := strings.SplitN(l[li][ti], "+", 3)
			p[1] = f(p[1])
			l[li][ti] = strings.Join(p, "+")
			return true
		})
	}
	resize("plus-one", func(s string) string { n, _ := strconv.Atoi(s); return strconv.Itoa(n + 1) }, 0)
	resize("extra-digit-last", func(s string) string { return s + "0" }, 1)
	resize("leading-zero", func(s string) string { return "0" + s }, 0)
	resize("non-digit-suffix", func(s string) string { return s + "x" }, 0)
	add("stream-name", "renamed", func(l [][]string) bool {
		if l[0][0] == "." {
			l[0][0] = "./x"
		} else {
			l[0][0] += "x"
		}
		return true
	})
	add("stream-name", "last-renamed", func(l [][]string) bool {
		if len(l) < 3 {
			return false
		}
		l[len(l)-2][0] += "y"
		return true
	})
	add("file-token", "renamed", func(l [][]string) bool {
		k := len(l[0]) - 1
		l[0][k] += "x"
		return true
	})
	add("file-token", "position", func(l [][]string) bool {
		k := len(l[0]) - 1
		p := strings.SplitN(l[0][k], ":", 3)
		if len(p) != 3 {
			return false
		}
		n, _ := strconv.Atoi(p[0])
		p[0] = strconv.Itoa(n + 1)
		l[0][k] = strings.Join(p, ":")
		return true
	})
	add("file-token", "length", func(l [][]string) bool {
		k := len(l[len(l)-2]) - 1
		p := strings.SplitN(l[len(l)-2][k], ":", 3)
		if len(p) != 3 {
			return false
		}
		n, _ := strconv.Atoi(p[1])
		p[1] = strconv.Itoa(n + 1)
		l[len(l)-2][k] = strings.Join(p, ":")
		return true
	})
	add("file-token", "dropped", func(l [][]string) bool {
		k := len(l[0]) - 1
		if k < 3 || IsLocator(l[0][k-1]) {
			return false
		}
		l[0] = l[0][:k]
		return true
	})
	// line-level
	if lines := Split(text); len(lines) >= 2 {
		out = append(out, Tamper{"dropped-line", "last", Join(append(append([][]string{}, lines[:len(lines)-2]...), lines[len(lines)-1]))})
		if len(lines) >= 3 {
			out = append(out, Tamper{"dropped-line", "first", Join(lines[1:])})
			sw := append([][]string{}, lines...)
			sw[0], sw[1] = sw[1], sw[0]
			if t := Join(sw); t != text {
				out = append(out, Tamper{"reordered", "lines", t})
			}
		}
		out = append(out, Tamper{"added-line", "copy-of-first", Join(append([][]string{lines[0]}, lines...))})
	}
	add("extra-hint", "K-on-first", func(l [][]string) bool {
		li, ti := firstLocator(l, 0)
		if li < 0 {
			return false
		}
		l[li][ti] += "+Kzextra"
		return true
	})
	add("extra-hint", "signature-on-last", func(l [][]string) bool {
		li, ti := lastLocator(l)
		if li < 0 {
			return false
		}
		l[li][ti] += Sig("zevil", 77)
		return true
	})
	add("dropped-hint", "all-of-first", func(l [][]string) bool {
		li, ti := firstLocator(l, 0)
		if li < 0 {
			return false
		}
		p := strings.SplitN(l[li][ti], "+", 3)
		if len(p) < 3 {
			return false
		}
		l[li][ti] = p[0] + "+" + p[1]
		return true
	})
	add("reordered", "blocks", func(l [][]string) bool {
		for li := range l {
			for ti := 1; ti+1 < len(l[li]); ti++ {
				if IsLocator(l[li][ti]) && IsLocator(l[li][ti+1]) {
					a := strings.SplitN(l[li][ti], "+", 3)
					b := strings.SplitN(l[li][ti+1], "+", 3)
					if a[0]+"+"+a[1] != b[0]+"+"+b[1] {
						l[li][ti], l[li][ti+1] = l[li][ti+1], l[li][ti]
						return true
					}
				}
			}
		}
		return false
	})
	add("reordered", "file-tokens", func(l [][]string) bool {
		k := len(l[0]) - 1
		if k < 3 || IsLocator(l[0][k-1]) || l[0][k] == l[0][k-1] {
			return false
		}
		l[0][k], l[0][k-1] = l[0][k-1], l[0][k]
		return true
	})
	// whitespace (text level)
	ws := func(name, t string) {
		if t != text {
			out = append(out, Tamper{"whitespace", name, t})
		}
	}
	if i := strings.Index(text, " "); i >= 0 {
		ws("double-space", text[:i]+" "+text[i:])
		ws("tab-for-space", text[:i]+"\t"+text[i+1:])
	}
	if i := strings.Index(text, "\n"); i >= 0 {
		ws("space-before-newline", text[:i]+" "+text[i:])
		ws("crlf", text[:i]+"\r"+text[i:])
		ws("cr-inside-line", text[:i/2]+"\r"+text[i/2:])
	}
	if strings.HasSuffix(text, "\n") {
		ws("no-final-newline", text[:len(text)-1])
		ws("extra-final-newline", text+"\n")
	}
	ws("leading-space", " "+text)
	ws("leading-newline", "\n"+text)
	// a "hint" that hides a line break: the rest of the line becomes another stream
	add("extra-hint", "hint-with-newline", func(l [][]string) bool {
		li, ti := firstLocator(l, 0)
		if li < 0 {
			return false
		}
		l[li][ti] += "+Kz\n./evil"
		return true
	})
	return out
}
