// +build verif,race

package vsched

// Under -race checkptr rejects the pointer arithmetic of the fast path (gid_fast.go).
func getgid() int64 { return slowGid() }
