// +build verif

package vsched

import (
	"fmt"
	"os"
	"strings"
	"time"

	"git.arvados.org/arvados.git/lib/verifshim/vrep"
)

// Result is what one execution produced.
type Result struct {
	Choices  []int
	Points   []Point
	Cost     int
	Log      []string
	Deadlock bool
	Blocked  string
	Horizon  bool
	Panic    string
	Hash     uint64
}

// Trace renders the decisions of an execution (labels of non-forced decisions).
func (r *Result) Trace() []string {
	var out []string
	for i, p := range r.Points {
		mark := ""
		if p.Chosen != 0 {
			mark = "*"
		}
		if p.NAlts > 1 || p.Chosen != 0 {
			out = append(out, fmt.Sprintf("%d%s %s (%d/%d)", i, mark, p.Label, p.Chosen, p.NAlts))
		}
	}
	return out
}

type Options struct {
	Name      string
	Bound     int   // maximum total deviation cost of an execution
	MaxPoints int   // horizon: maximum decisions per execution (default 5000)
	MaxExec   int64 // cap on executions (0 = none); hitting it marks the report not exhaustive
	Report    *vrep.Report
	// Scenario parameters stored in replay files.
	Params interface{}
	// NoShard: run the whole tree in this process regardless of VERIF_SHARD (the harness shards
	// at scenario level instead).
	NoShard bool
	// SplitDepth: deviation depth at which subtrees are dealt to the shards (default 2).  Every
	// shard runs the executions above that depth itself; a larger value gives smaller, better
	// balanced subtrees for trees with many free alternatives.
	SplitDepth int
	// DeadlockOK: a deadlock is reported through Result only (default: the explorer records a
	// violation "deadlock").
	DeadlockOK bool
	HorizonOK  bool
	PanicOK    bool
}

// Stats of one Explore call.
type Stats struct {
	Executions int64
	Points     int64
	MaxCost    int
	Capped     bool
	Outcomes   map[string]int64
}

// RunOne executes body once under the scheduler following prefix (then defaults).
func RunOne(prefix []int, maxPoints int, body func()) *Result {
	if maxPoints <= 0 {
		maxPoints = 5000
	}
	s := &scheduler{
		active:    true,
		bygid:     map[int64]*task{},
		prefix:    prefix,
		doneCh:    make(chan struct{}),
		maxPoints: maxPoints,
		now:       Epoch,
		hash:      1469598103934665603,
	}
	S = s
	s.mu.Lock()
	t := &task{id: 0, name: "main", wake: make(chan struct{}, 1), op: &op{kind: opStart}}
	s.tasks = append(s.tasks, t)
	s.current = t
	s.mu.Unlock()
	ready := make(chan struct{})
	go runTask(t, body, ready)
	<-ready
	t.wake <- struct{}{}
	<-s.doneCh
	s.mu.Lock()
	defer s.mu.Unlock()
	s.active = false
	if s.replayErr != "" {
		fmt.Fprintf(os.Stderr, "vsched: NONDETERMINISTIC REPLAY: %s\nprefix=%v\n", s.replayErr, prefix)
		os.Exit(2)
	}
	res := &Result{Points: s.points, Cost: s.costSoFar, Log: s.log, Deadlock: s.deadlock, Blocked: s.deadlockInfo,
		Horizon: s.horizon, Panic: s.panicVal, Hash: s.hash}
	res.Choices = make([]int, len(s.points))
	for i, p := range s.points {
		res.Choices[i] = p.Chosen
	}
	return res
}

// Explore runs body under every schedule / environment answer whose total deviation cost is at
// most opts.Bound (stateless DFS, default alternative 0 after the prefix) and calls check on every
// execution.  It returns statistics; violations found by the explorer itself (deadlock, horizon,
// panic) are recorded in opts.Report unless the corresponding *OK flag is set.
func Explore(opts Options, body func(), check func(r *Result)) Stats {
	st := Stats{Outcomes: map[string]int64{}}
	shard, nshards := vrep.Shard()
	if opts.NoShard {
		shard, nshards = 0, 1
	}
	splitDepth := 2
	if opts.SplitDepth > 0 {
		splitDepth = opts.SplitDepth
	}
	counter := 0
	var replay struct {
		Choices []int `json:"choices"`
	}
	if os.Getenv("VERIF_REPLAY") != "" && vrep.ReplayDoc(&replay) && replay.Choices != nil {
		r1 := RunOne(replay.Choices, opts.MaxPoints, body)
		r2 := RunOne(replay.Choices, opts.MaxPoints, body)
		if r1.Hash != r2.Hash || strings.Join(r1.Log, "\n") != strings.Join(r2.Log, "\n") {
			fmt.Fprintf(os.Stderr, "vsched: replay is not deterministic\n")
			os.Exit(2)
		}
		st.Executions = 2
		explorerVerdict(opts, r1)
		check(r1)
		return st
	}
	var rec func(prefix []int, parentHash uint64, depth int, mine bool)
	rec = func(prefix []int, parentHash uint64, depth int, mine bool) {
		if opts.MaxExec > 0 && st.Executions >= opts.MaxExec {
			st.Capped = true
			return
		}
		if opts.Report != nil && opts.Report.OutOfBudget() {
			st.Capped = true
			return
		}
		x := RunOne(prefix, opts.MaxPoints, body)
		if len(prefix) > 0 {
			i := len(prefix) - 1
			if i >= len(x.Points) || x.Points[i].Hash != parentHash {
				fmt.Fprintf(os.Stderr, "vsched: NONDETERMINISTIC REPLAY in %s: prefix %v diverged at decision %d\n", opts.Name, prefix, i)
				os.Exit(2)
			}
		}
		counted := (depth < splitDepth && shard == 0) || (depth >= splitDepth && mine)
		if counted {
			st.Executions++
			st.Points += int64(len(x.Points))
			if x.Cost > st.MaxCost {
				st.MaxCost = x.Cost
			}
			explorerVerdict(opts, x)
			check(x)
		}
		cost := 0
		for i := 0; i < len(x.Points); i++ {
			p := x.Points[i]
			if i >= len(prefix) {
				for a := 1; a < p.NAlts; a++ {
					if cost+p.Costs[a] > opts.Bound {
						continue
					}
					child := append(append(make([]int, 0, i+1), x.Choices[:i]...), a)
					childMine := mine
					if depth+1 == splitDepth {
						childMine = counter%nshards == shard
						counter++
					}
					if depth+1 >= splitDepth && !childMine {
						continue
					}
					rec(child, p.Hash, depth+1, childMine)
				}
			}
			cost += p.Costs[p.Chosen]
		}
	}
	rec(nil, 0, 0, true)
	if st.Capped && opts.Report != nil {
		opts.Report.NotExhaustive(fmt.Sprintf("%s: execution/time cap hit after %d executions (bound %d not completed)", opts.Name, st.Executions, opts.Bound))
	}
	return st
}

func explorerVerdict(opts Options, x *Result) {
	r := opts.Report
	if r == nil {
		return
	}
	rp := map[string]interface{}{"scenario": opts.Name, "params": opts.Params, "choices": x.Choices, "trace": x.Trace()}
	if x.Deadlock && !opts.DeadlockOK {
		r.Violation("deadlock:"+opts.Name, fmt.Sprintf("no enabled task: %s\ntrace: %v", x.Blocked, x.Trace()), rp)
	}
	if x.Horizon && !opts.HorizonOK {
		r.Violation("horizon:"+opts.Name, fmt.Sprintf("execution exceeded %d decisions (livelock or unbounded loop)\ntrace tail: %v", len(x.Points), tailStrings(x.Trace(), 30)), rp)
	}
	if x.Panic != "" && !opts.PanicOK {
		first := x.Panic
		if k := strings.Index(first, "\n"); k > 0 {
			first = first[:k]
		}
		r.Violation("panic:"+opts.Name, fmt.Sprintf("%s\ntrace: %v", x.Panic, x.Trace()), rp)
	}
}

func tailStrings(s []string, n int) []string {
	if len(s) > n {
		return s[len(s)-n:]
	}
	return s
}

// ReplayInfo builds the replay object a harness should attach to its own violations.
func ReplayInfo(opts Options, x *Result) map[string]interface{} {
	return map[string]interface{}{"scenario": opts.Name, "params": opts.Params, "choices": x.Choices, "trace": x.Trace()}
}

var _ = time.Second
