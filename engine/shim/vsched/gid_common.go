// +build verif

package vsched

import (
	"bytes"
	"runtime"
	"strconv"
)

// slowGid is the portable way to learn the goroutine id (parses runtime.Stack).
func slowGid() int64 {
	var buf [64]byte
	n := runtime.Stack(buf[:], false)
	// "goroutine 123 ["
	b := buf[10:n]
	i := bytes.IndexByte(b, ' ')
	id, _ := strconv.ParseInt(string(b[:i]), 10, 64)
	return id
}

