// +build verif

package vsched

// BlockedSwitchCost is the deviation cost of choosing, at a point where the running task is
// blocked or has finished, any alternative other than the first one in canonical order (ascending
// task id).  The default 0 is the classic preemption bounding (all choices at blocking points are
// free).  With 1 the search becomes *delay bounded* (Emmi/Qadeer/Rakamaric): every deviation from
// the deterministic lowest-id-first scheduler costs one unit, so the number of executions is
// polynomial in the execution length even when the code under test starts many short-lived
// goroutines.  A harness sets it before Explore and stores it in its replay parameters.
var BlockedSwitchCost = 0
