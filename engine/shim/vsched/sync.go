// +build verif

package vsched

import (
	"sync"
)

// Shim synchronisation primitives.  Under the controlled scheduler the state is plain fields
// (only the baton holder runs); outside an exploration they delegate to the real primitives, so
// instrumented code keeps working in free-running mode (package init, -race pass).

type Mutex struct {
	real  sync.Mutex
	held  bool
	owner int
}

func (m *Mutex) Lock() {
	if cur() == nil {
		m.real.Lock()
		return
	}
	point(&op{kind: opLock, mu: m})
}

func (m *Mutex) Unlock() {
	if cur() == nil {
		m.real.Unlock()
		return
	}
	if !m.held {
		panic("sync: unlock of unlocked mutex")
	}
	m.held = false
}

type RWMutex struct {
	real    sync.RWMutex
	writer  bool
	readers int
}

func (rw *RWMutex) Lock() {
	if cur() == nil {
		rw.real.Lock()
		return
	}
	point(&op{kind: opLock, rw: rw})
}

func (rw *RWMutex) Unlock() {
	if cur() == nil {
		rw.real.Unlock()
		return
	}
	if !rw.writer {
		panic("sync: Unlock of unlocked RWMutex")
	}
	rw.writer = false
}

func (rw *RWMutex) RLock() {
	if cur() == nil {
		rw.real.RLock()
		return
	}
	point(&op{kind: opRLock, rw: rw})
}

func (rw *RWMutex) RUnlock() {
	if cur() == nil {
		rw.real.RUnlock()
		return
	}
	if rw.readers <= 0 {
		panic("sync: RUnlock of unlocked RWMutex")
	}
	rw.readers--
}

type rlocker RWMutex

func (r *rlocker) Lock()   { (*RWMutex)(r).RLock() }
func (r *rlocker) Unlock() { (*RWMutex)(r).RUnlock() }

func (rw *RWMutex) RLocker() sync.Locker { return (*rlocker)(rw) }

type WaitGroup struct {
	real sync.WaitGroup
	n    int
}

func (wg *WaitGroup) Add(delta int) {
	if cur() == nil {
		wg.real.Add(delta)
		return
	}
	wg.n += delta
	if wg.n < 0 {
		panic("sync: negative WaitGroup counter")
	}
}

func (wg *WaitGroup) Done() { wg.Add(-1) }

func (wg *WaitGroup) Wait() {
	if cur() == nil {
		wg.real.Wait()
		return
	}
	point(&op{kind: opWGWait, wg: wg})
}

type Once struct {
	real sync.Once
	m    Mutex
	done bool
}

func (o *Once) Do(f func()) {
	if cur() == nil {
		o.real.Do(f)
		return
	}
	if o.done {
		return
	}
	o.m.Lock()
	defer o.m.Unlock()
	if !o.done {
		defer func() { o.done = true }()
		f()
	}
}

type condTicket struct{ signaled bool }

type Cond struct {
	L       sync.Locker
	real    *sync.Cond
	waiters []*condTicket
}

func NewCond(l sync.Locker) *Cond { return &Cond{L: l} }

func (c *Cond) realCond() *sync.Cond {
	if c.real == nil {
		c.real = sync.NewCond(c.L)
	}
	return c.real
}

func (c *Cond) Wait() {
	if cur() == nil {
		c.realCond().Wait()
		return
	}
	tk := &condTicket{}
	c.waiters = append(c.waiters, tk)
	c.L.Unlock()
	point(&op{kind: opCondWait, cond: c, ticket: tk})
	c.L.Lock()
}

func (c *Cond) Signal() {
	if cur() == nil {
		c.realCond().Signal()
		return
	}
	if len(c.waiters) > 0 {
		c.waiters[0].signaled = true
		c.waiters = c.waiters[1:]
	}
}

func (c *Cond) Broadcast() {
	if cur() == nil {
		c.realCond().Broadcast()
		return
	}
	for _, w := range c.waiters {
		w.signaled = true
	}
	c.waiters = nil
}
