// +build verif

package vsched

import (
	"fmt"
	"reflect"
	"runtime"
	"sort"
	"time"
)

// Helpers for closed systems that never terminate by themselves (tickers, polling loops):
//
//	WaitIdle  parks the caller until no other task is enabled and no timer is due, WITHOUT letting
//	          the virtual clock advance ("run everything to quiescence at the current instant");
//	Halt      ends the execution normally although other tasks are still parked;
//	NoteChan  gives channels used as map keys a deterministic order (order of registration), used
//	          by verifgen -maporder for maps keyed by channels;
//	PendingTimers / TimerPending expose the virtual timers for canonical state forms.

// WaitIdle parks the calling task until every other task is blocked and no virtual timer is due.
// The clock does not advance while a task waits in WaitIdle (the scheduler only advances the clock
// when nothing at all is enabled, and an idle system enables the WaitIdle caller).  Typical use by
// a driver task: change the environment (or call Advance), then WaitIdle().
func WaitIdle(label string) {
	t := cur()
	if t == nil {
		return
	}
	probing := false
	point(&op{kind: opCustom, label: ":idle:" + label, enabled: func() bool {
		// called by the scheduler (S.mu held) while it computes the alternatives
		if probing {
			return false
		}
		probing = true
		defer func() { probing = false }()
		return !S.anythingEnabled(t)
	}})
}

// anythingEnabled reports whether any task other than self could be granted now, or a timer is
// due (same conditions as alternatives(), without building the alternatives).
func (s *scheduler) anythingEnabled(self *task) bool {
	var sends, recvs []offer
	for _, u := range s.tasks {
		if u == self || u.done || u.op == nil {
			continue
		}
		o := u.op
		if o.kind == opSelect {
			if o.hasDef {
				return true
			}
			for _, c := range o.cases {
				if c.nil {
					continue
				}
				if c.dir == 'r' && chanRecvReady(c.ch) || c.dir == 's' && chanSendReady(c.ch) {
					return true
				}
			}
		} else if s.opEnabled(u) {
			return true
		}
		us, ur := s.offers(u)
		for _, a := range us {
			for _, b := range recvs {
				if b.t != u && chanID(a.ch) == chanID(b.ch) {
					return true
				}
			}
		}
		for _, a := range ur {
			for _, b := range sends {
				if b.t != u && chanID(a.ch) == chanID(b.ch) {
					return true
				}
			}
		}
		sends = append(sends, us...)
		recvs = append(recvs, ur...)
	}
	for _, tm := range s.timers {
		if tm.active && !s.now.Before(tm.when) {
			return true
		}
	}
	return false
}

// Halt ends the current execution normally: every other task is released (its goroutine exits at
// the point where it is parked, running its deferred calls) and RunOne returns without a deadlock
// or horizon verdict.  It does not return.
func Halt() {
	if cur() == nil {
		return
	}
	S.mu.Lock()
	S.abortLocked()
	S.mu.Unlock()
	runtime.Goexit()
}

// ---- deterministic order for channels used as map keys ----------------------------------------

type chanRegistry struct {
	owner *scheduler
	seq   map[uintptr]int
	n     int
}

var chanReg chanRegistry

// NoteChan registers ch (any channel value); channels compare in SortedKeys by registration order.
// The registry is per execution.
func NoteChan(ch interface{}) {
	if !S.active {
		return
	}
	v := reflect.ValueOf(ch)
	if v.Kind() != reflect.Chan || v.IsNil() {
		return
	}
	S.mu.Lock()
	if chanReg.owner != S || chanReg.seq == nil {
		chanReg = chanRegistry{owner: S, seq: map[uintptr]int{}}
	}
	chanReg.n++
	chanReg.seq[v.Pointer()] = chanReg.n
	S.mu.Unlock()
}

// chanLess orders two channel values: registered ones by registration order, before unregistered
// ones; unregistered ones by address (not deterministic across runs — register them).
func chanLess(a, b reflect.Value) bool {
	var sa, sb int
	if chanReg.owner == S && chanReg.seq != nil {
		if !a.IsNil() {
			sa = chanReg.seq[a.Pointer()]
		}
		if !b.IsNil() {
			sb = chanReg.seq[b.Pointer()]
		}
	}
	if sa != 0 && sb != 0 {
		return sa < sb
	}
	if sa != 0 || sb != 0 {
		return sa != 0
	}
	return a.Pointer() < b.Pointer()
}

// ---- timers for canonical forms ------------------------------------------------------------------

// TimerInfo describes one active virtual timer.
type TimerInfo struct {
	Seq      int           // creation (or re-arming) sequence number within the execution
	In       time.Duration // time until it fires (<= 0: due)
	Periodic bool
	Func     bool // AfterFunc timer
}

// PendingTimers lists the active virtual timers ordered by (In, Seq).
func PendingTimers() []TimerInfo {
	if cur() == nil {
		return nil
	}
	S.mu.Lock()
	defer S.mu.Unlock()
	var out []TimerInfo
	seen := map[*Timer]bool{}
	for _, tm := range S.timers {
		if tm.active && !seen[tm] {
			seen[tm] = true
			out = append(out, TimerInfo{Seq: tm.seq, In: tm.when.Sub(S.now), Periodic: tm.period > 0, Func: tm.f != nil})
		}
	}
	sort.Slice(out, func(i, j int) bool {
		if out[i].In != out[j].In {
			return out[i].In < out[j].In
		}
		return out[i].Seq < out[j].Seq
	})
	return out
}

// TimerSeq returns the sequence number given to the most recently armed timer.
func TimerSeq() int {
	if cur() == nil {
		return 0
	}
	S.mu.Lock()
	defer S.mu.Unlock()
	return S.timerSeq
}

// TimerPending reports whether tm is armed and in how long it fires.
func TimerPending(tm *Timer) (bool, time.Duration) {
	if cur() == nil || tm == nil {
		return false, 0
	}
	S.mu.Lock()
	defer S.mu.Unlock()
	if !tm.active {
		return false, 0
	}
	return true, tm.when.Sub(S.now)
}

// VirtualNow returns the virtual clock without consuming a tick of the strictly increasing Now().
func VirtualNow() time.Time {
	if cur() == nil {
		return time.Now()
	}
	S.mu.Lock()
	defer S.mu.Unlock()
	return S.now
}

// TaskCount returns (alive, total) registered tasks of the current execution.
func TaskCount() (int, int) {
	if cur() == nil {
		return 0, 0
	}
	S.mu.Lock()
	defer S.mu.Unlock()
	alive := 0
	for _, u := range S.tasks {
		if !u.done {
			alive++
		}
	}
	return alive, len(S.tasks)
}

// quietCost is the deviation cost given to every non-default alternative while Quiet is on: larger
// than any bound, so the explorer never branches there.
const quietCost = 1 << 20

// Quiet switches the exploration of alternatives off (true) or on (false) for the decisions that
// follow: a harness runs its set-up and drain phases quietly under the default schedule and lets
// Explore branch only inside the window of interest.  The default is on (not quiet).
func Quiet(on bool) {
	if cur() == nil {
		return
	}
	S.mu.Lock()
	S.quiet = on
	S.mu.Unlock()
}

// CompactTimers drops fired / stopped timers (and duplicate entries of re-armed ones) from the
// scheduler's timer list.  The scheduler compacts the list itself only when it advances the clock
// on its own; a driver that moves time with Advance should call this now and then.
func CompactTimers() {
	if cur() == nil {
		return
	}
	S.mu.Lock()
	defer S.mu.Unlock()
	seen := map[*Timer]bool{}
	live := make([]*Timer, 0, len(S.timers))
	for _, tm := range S.timers {
		if tm.active && !seen[tm] {
			seen[tm] = true
			live = append(live, tm)
		}
	}
	S.timers = live
}

// firstAlternative returns what alternatives(arriving)[0] would be (same task order, same label,
// cost 0) without computing the other alternatives.  Used while Quiet is on, where every decision
// takes the default and offers nothing to the explorer: the cost of a decision then no longer grows
// with the number of parked tasks.
func (s *scheduler) firstAlternative(arriving *task) (alt, bool) {
	if arriving != nil && arriving.done {
		arriving = nil
	}
	n := len(s.tasks)
	// canonical order: arriving first, then ascending ids without arriving; position -1 = arriving
	next := func(pos int) (int, *task) {
		for pos++; pos < n; pos++ {
			u := s.tasks[pos]
			if u != arriving && !u.done && u.op != nil {
				return pos, u
			}
		}
		return n, nil
	}
	pos := -2
	for {
		var t *task
		if pos == -2 {
			pos = -1
			t = arriving
			if t == nil {
				continue
			}
		} else {
			pos, t = next(pos)
			if t == nil {
				break
			}
		}
		o := t.op
		if o.kind == opSelect {
			for i, c := range o.cases {
				if c.nil {
					continue
				}
				if c.dir == 'r' && chanRecvReady(c.ch) || c.dir == 's' && chanSendReady(c.ch) {
					return alt{kind: 0, t: t, selCase: i, label: fmt.Sprintf("t%d:select[%d]%s", t.id, i, o.label)}, true
				}
			}
		} else if s.opEnabled(t) {
			return alt{kind: 0, t: t, selCase: -2, label: fmt.Sprintf("t%d:%s%s", t.id, kindNames[o.kind], o.label)}, true
		}
		ms, mr := s.offers(t)
		if len(ms)+len(mr) > 0 {
			for p2, u := next(pos); u != nil; p2, u = next(p2) {
				us, ur := s.offers(u)
				for _, a := range ms {
					for _, b := range ur {
						if chanID(a.ch) == chanID(b.ch) {
							return alt{kind: 1, t: t, t2: u, selCase: a.cas, selCas2: b.cas, label: fmt.Sprintf("t%d->t%d:rendezvous%s", t.id, u.id, o.label)}, true
						}
					}
				}
				for _, a := range mr {
					for _, b := range us {
						if chanID(a.ch) == chanID(b.ch) {
							return alt{kind: 1, t: t, t2: u, selCase: a.cas, selCas2: b.cas, label: fmt.Sprintf("t%d<-t%d:rendezvous%s", t.id, u.id, o.label)}, true
						}
					}
				}
			}
		}
		if o.kind == opSelect && o.hasDef {
			return alt{kind: 0, t: t, selCase: -1, label: fmt.Sprintf("t%d:select[default]%s", t.id, o.label)}, true
		}
	}
	if due := s.dueTimers(); len(due) > 0 {
		tm := due[0]
		return alt{kind: 2, timer: tm, label: fmt.Sprintf("timer#%d%s", tm.seq, tm.label)}, true
	}
	return alt{}, false
}

// StrictCosts(true) makes every non-default alternative of the decisions that follow cost at least
// 1, including the normally free choice of the next task when the running one blocks or ends.  The
// exploration bound then limits the total number of deviations from the default scheduler (delay
// bounding) instead of only the preemptions: needed for systems in which many tasks are enabled at
// once (a timer tick wakes a dozen goroutines), where the free choices alone multiply beyond reach.
func StrictCosts(on bool) {
	if cur() == nil {
		return
	}
	S.mu.Lock()
	S.strict = on
	S.mu.Unlock()
}
