// +build verif,!race

package vsched

// Fast identification of the calling goroutine.
//
// runtime.Stack (the portable way to learn the goroutine id) unwinds and formats the whole stack:
// about 2 us per frame, i.e. 20-40 us per call from inside real code, and the scheduler asks at
// every shim call.  On the pinned toolchain (go1.23, linux/amd64) the address of the running
// goroutine's descriptor is read instead (runtime.getm / procPin / procUnpin are linkname-exported
// by the runtime for exactly this kind of use).  The address identifies a goroutine for as long as
// it lives, which is all the scheduler needs: a task's entry is removed when its goroutine exits.
// A self-test at start-up falls back to the portable path if anything looks different.

import (
	"runtime"
	"strings"
	"unsafe"
)

//go:linkname runtime_getm runtime.getm
func runtime_getm() uintptr

//go:linkname runtime_procPin runtime.procPin
func runtime_procPin() int

//go:linkname runtime_procUnpin runtime.procUnpin
func runtime_procUnpin()

const (
	mCurgOffset = 192 // offsetof(runtime.m, curg) in go1.23 on 64-bit
	gMOffset    = 48  // offsetof(runtime.g, m)
)

var fastGid bool

func curgAddr() uintptr {
	runtime_procPin()
	m := runtime_getm()
	g := *(*uintptr)(unsafe.Pointer(m + mCurgOffset))
	runtime_procUnpin()
	return g
}

func init() {
	if runtime.GOARCH != "amd64" || runtime.GOOS != "linux" || !strings.HasPrefix(runtime.Version(), "go1.23") {
		return
	}
	check := func() (uintptr, bool) {
		runtime_procPin()
		m := runtime_getm()
		g := *(*uintptr)(unsafe.Pointer(m + mCurgOffset))
		ok := g != 0 && g%8 == 0 && g > 4096
		if ok {
			ok = *(*uintptr)(unsafe.Pointer(g + gMOffset)) == m
		}
		runtime_procUnpin()
		return g, ok
	}
	g1, ok1 := check()
	g1b, _ := check()
	type res struct {
		g  uintptr
		ok bool
	}
	ch := make(chan res)
	go func() {
		g, ok := check()
		ch <- res{g, ok}
	}()
	r2 := <-ch
	fastGid = ok1 && r2.ok && g1 == g1b && g1 != r2.g
}

func getgid() int64 {
	if fastGid {
		return int64(curgAddr())
	}
	return slowGid()
}
