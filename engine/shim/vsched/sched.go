// +build verif

// Package vsched is a cooperative controlled scheduler for instrumented Go code plus a stateless
// depth-first explorer with deviation bounding (see /verif/DESIGN.md 2.3).
//
// Exactly one registered task runs at any time; every other task is parked inside a shim call.
// A task arriving at a scheduling point publishes an operation descriptor; the scheduler computes
// the alternatives (enabled tasks, select cases, rendezvous pairs, due timers), picks one according
// to the replayed prefix (or alternative 0 after the prefix), and hands the baton over.
package vsched

import (
	"fmt"
	"reflect"
	"runtime"
	"sort"
	"strconv"
	"sync"
	"time"
)

type opKind int

const (
	opStart opKind = iota
	opYield
	opLock
	opRLock
	opWGWait
	opCondWait
	opSend
	opRecv
	opSelect
	opSleepUntil
	opCustom
)

var kindNames = []string{"start", "yield", "lock", "rlock", "wgwait", "condwait", "send", "recv", "select", "sleep", "custom"}

// SelCase describes one case of a select statement: Dir 's' send, 'r' receive.
type SelCase struct {
	Dir byte
	Ch  interface{}
}

type op struct {
	kind    opKind
	label   string
	mu      *Mutex
	rw      *RWMutex
	wg      *WaitGroup
	cond    *Cond
	ticket  *condTicket
	ch      reflect.Value
	cases   []selCase
	hasDef  bool
	until   time.Time
	enabled func() bool // opCustom
	result  int         // select: chosen case (-1 = default)
}

type selCase struct {
	dir byte
	ch  reflect.Value
	nil bool
}

type task struct {
	id        int
	gid       int64
	name      string
	wake      chan struct{}
	op        *op
	done      bool
	afterRole int // 0 none, 2 secondary of a rendezvous (parks in After)
}

// Point describes one decision of an execution.
type Point struct {
	Task   int    // task that was running when the decision was taken (-1: none)
	NAlts  int    // number of alternatives
	Chosen int    // index taken
	Costs  []int  // deviation cost of each alternative
	Label  string // description of the chosen alternative
	Hash   uint64 // running hash of everything decided/observed before this point
}

type alt struct {
	kind    int // 0 task, 1 rendezvous pair, 2 timer, 3 choice option
	t       *task
	t2      *task // rendezvous partner (secondary)
	selCase int   // for select ops: case index (-1 default); for choice: option
	selCas2 int
	timer   *Timer
	cost    int
	label   string
}

type scheduler struct {
	mu       sync.Mutex
	active   bool
	aborted  bool
	tasks    []*task
	bygid    map[int64]*task
	current  *task
	prefix   []int
	points   []Point
	costSoFar int
	hash     uint64
	log      []string
	doneCh   chan struct{}
	finished bool
	maxPoints int
	// outcome flags
	deadlock   bool
	deadlockInfo string
	horizon    bool
	panicVal   string
	replayErr  string
	secondary  *task
	secArrived chan struct{}
	// virtual time
	now     time.Time
	nowTick int64
	timers  []*Timer
	timerSeq int
	costFn   func(label string, option int) int
	quiet    bool // Quiet(true): decisions are taken by default and offer no alternatives to the explorer
	strict   bool // StrictCosts(true): every non-default alternative costs at least 1 (delay bounding)
}

var S = &scheduler{}

// epoch of the virtual clock.
var Epoch = time.Date(2020, 1, 1, 0, 0, 0, 0, time.UTC)

// getgid (identity of the calling goroutine): see gid_fast.go

// cur returns the calling task, or nil when the caller is not a registered task of an active
// exploration (pass-through mode).
func cur() *task {
	if !S.active {
		return nil
	}
	gid := getgid()
	S.mu.Lock()
	t := S.bygid[gid]
	S.mu.Unlock()
	return t
}

// Active reports whether the caller runs under the controlled scheduler.
func Active() bool { return cur() != nil }

func mix(h uint64, s string) uint64 {
	for i := 0; i < len(s); i++ {
		h ^= uint64(s[i])
		h *= 1099511628211
	}
	h ^= 0xff
	h *= 1099511628211
	return h
}

// Log appends an observation to the execution log (part of the replay-determinism check).
func Log(format string, args ...interface{}) {
	s := fmt.Sprintf(format, args...)
	if !S.active {
		return
	}
	S.mu.Lock()
	S.log = append(S.log, s)
	S.hash = mix(S.hash, s)
	S.mu.Unlock()
}

type abortSignal struct{}

// park blocks the calling task until it is granted; returns normally or exits the goroutine when
// the execution was aborted.
func (t *task) park() {
	<-t.wake
	if S.aborted {
		runtime.Goexit()
	}
}

// point publishes o as the caller's pending operation and returns once it has been granted.
func point(o *op) {
	t := cur()
	if t == nil {
		panic("vsched: point() called outside a registered task")
	}
	if S.aborted {
		runtime.Goexit()
	}
	t.op = o
	S.schedule(t)
}

func (s *scheduler) opEnabled(t *task) bool {
	o := t.op
	switch o.kind {
	case opStart, opYield:
		return true
	case opLock:
		if o.mu != nil {
			return !o.mu.held
		}
		return !o.rw.writer && o.rw.readers == 0
	case opRLock:
		if o.rw.writer {
			return false
		}
		for _, u := range s.tasks {
			if u != t && !u.done && u.op != nil && u.op.kind == opLock && u.op.rw == o.rw {
				return false // a writer is waiting: writer preference
			}
		}
		return true
	case opWGWait:
		return o.wg.n == 0
	case opCondWait:
		return o.ticket.signaled
	case opSleepUntil:
		return !s.now.Before(o.until)
	case opCustom:
		return o.enabled()
	case opRecv:
		return chanRecvReady(o.ch)
	case opSend:
		return chanSendReady(o.ch)
	}
	return false
}

func chanRecvReady(ch reflect.Value) bool {
	if ch.IsNil() {
		return false
	}
	if ch.Len() > 0 {
		return true
	}
	return chanClosed(ch)
}

// chanClosed must only be called when Len()==0 and no uninstrumented sender can be blocked on ch.
func chanClosed(ch reflect.Value) bool {
	if ch.Type().ChanDir()&reflect.RecvDir == 0 {
		return false
	}
	x, ok := ch.TryRecv()
	if x.IsValid() && ok {
		panic("vsched: closedness probe consumed a value: an uninstrumented sender exists on this channel")
	}
	return x.IsValid() && !ok
}

func chanSendReady(ch reflect.Value) bool {
	if ch.IsNil() {
		return false
	}
	if ch.Cap() > 0 && ch.Len() < ch.Cap() {
		return true
	}
	if ch.Cap() > 0 {
		return false
	}
	// unbuffered: ready only with a partner (handled as rendezvous) — or when closed (the real
	// send then panics, which is the real behaviour)
	if ch.Type().ChanDir()&reflect.RecvDir != 0 && chanClosed(ch) {
		return true
	}
	return false
}

func chanID(ch reflect.Value) uintptr {
	if ch.IsNil() {
		return 0
	}
	return ch.Pointer()
}

// sendOffers / recvOffers: unbuffered-channel operations a parked task is offering.
type offer struct {
	t    *task
	cas  int // select case index, -2 for plain op
	ch   reflect.Value
}

func (s *scheduler) offers(t *task) (sends, recvs []offer) {
	o := t.op
	switch o.kind {
	case opSend:
		if !o.ch.IsNil() && o.ch.Cap() == 0 {
			sends = append(sends, offer{t, -2, o.ch})
		}
	case opRecv:
		if !o.ch.IsNil() && o.ch.Cap() == 0 {
			recvs = append(recvs, offer{t, -2, o.ch})
		}
	case opSelect:
		for i, c := range o.cases {
			if c.nil || c.ch.Cap() != 0 {
				continue
			}
			if c.dir == 's' {
				sends = append(sends, offer{t, i, c.ch})
			} else {
				recvs = append(recvs, offer{t, i, c.ch})
			}
		}
	}
	return
}

// alternatives computes every enabled alternative in canonical order: the running task first (if
// it is still enabled), then ascending task ids; rendezvous pairs are listed under their first
// task; due timers last.
func (s *scheduler) alternatives(arriving *task) []alt {
	var order []*task
	if arriving != nil && !arriving.done {
		order = append(order, arriving)
	}
	for _, t := range s.tasks {
		if t != arriving && !t.done && t.op != nil {
			order = append(order, t)
		}
	}
	var alts []alt
	curEnabled := false
	for oi, t := range order {
		var mine []alt
		o := t.op
		if o.kind == opSelect {
			any := false
			for i, c := range o.cases {
				if c.nil {
					continue
				}
				ready := false
				if c.dir == 'r' {
					ready = chanRecvReady(c.ch)
				} else {
					ready = chanSendReady(c.ch)
				}
				if ready {
					mine = append(mine, alt{kind: 0, t: t, selCase: i, label: fmt.Sprintf("t%d:select[%d]%s", t.id, i, o.label)})
					any = true
				}
			}
			_ = any
		} else if s.opEnabled(t) {
			mine = append(mine, alt{kind: 0, t: t, selCase: -2, label: fmt.Sprintf("t%d:%s%s", t.id, kindNames[o.kind], o.label)})
		}
		// rendezvous: this task's offers against offers of tasks later in canonical order
		ms, mr := s.offers(t)
		for _, u := range order[oi+1:] {
			us, ur := s.offers(u)
			for _, a := range ms {
				for _, b := range ur {
					if chanID(a.ch) == chanID(b.ch) {
						mine = append(mine, alt{kind: 1, t: t, t2: u, selCase: a.cas, selCas2: b.cas, label: fmt.Sprintf("t%d->t%d:rendezvous%s", t.id, u.id, o.label)})
					}
				}
			}
			for _, a := range mr {
				for _, b := range us {
					if chanID(a.ch) == chanID(b.ch) {
						mine = append(mine, alt{kind: 1, t: t, t2: u, selCase: a.cas, selCas2: b.cas, label: fmt.Sprintf("t%d<-t%d:rendezvous%s", t.id, u.id, o.label)})
					}
				}
			}
		}
		if len(mine) == 0 && o.kind == opSelect && o.hasDef {
			mine = append(mine, alt{kind: 0, t: t, selCase: -1, label: fmt.Sprintf("t%d:select[default]%s", t.id, o.label)})
		}
		if t == arriving && len(mine) > 0 {
			curEnabled = true
		}
		for i := range mine {
			c := 0
			if i > 0 {
				c = 1 // non-first select case / pairing of the same task
			}
			if t != arriving && curEnabled {
				c++ // switching away from a runnable task is a preemption
			}
			if !curEnabled && len(alts) > 0 {
				c += BlockedSwitchCost // delay bounding (0 = off: choices at blocking points are free)
			}
			mine[i].cost = c
		}
		alts = append(alts, mine...)
	}
	// timers that are due
	for _, tm := range s.dueTimers() {
		c := 0
		if len(alts) > 0 {
			c = 1
		}
		alts = append(alts, alt{kind: 2, timer: tm, cost: c, label: fmt.Sprintf("timer#%d%s", tm.seq, tm.label)})
	}
	return alts
}

// schedule is called by the task that holds the baton when it arrives at a point (t.op set) or
// has finished (t.done).  It returns when t has been granted again (never, if t is done).
func (s *scheduler) schedule(t *task) {
	s.mu.Lock()
	for {
		if s.secondary != nil {
			// wait for the rendezvous partner to arrive at its Post() point
			sec := s.secArrived
			s.mu.Unlock()
			<-sec
			s.mu.Lock()
			s.secondary = nil
		}
		if s.aborted {
			s.mu.Unlock()
			runtime.Goexit()
		}
		var alts []alt
		if s.quiet {
			// no exploration here: only the default alternative is needed (see quiesce.go)
			if a, ok := s.firstAlternative(t); ok {
				alts = []alt{a}
			}
		} else {
			alts = s.alternatives(t)
		}
		if len(alts) == 0 {
			// nothing enabled: advance the virtual clock if a timer or sleeper is pending
			if s.advanceClock() {
				continue
			}
			alive := 0
			for _, u := range s.tasks {
				if !u.done {
					alive++
				}
			}
			if alive == 0 {
				s.finish()
				s.mu.Unlock()
				return
			}
			s.deadlock = true
			s.deadlockInfo = s.describeBlocked()
			s.abortLocked()
			s.mu.Unlock()
			runtime.Goexit()
		}
		if len(s.points) >= s.maxPoints {
			s.horizon = true
			s.abortLocked()
			s.mu.Unlock()
			runtime.Goexit()
		}
		idx := 0
		di := len(s.points)
		if di < len(s.prefix) {
			idx = s.prefix[di]
			if idx < 0 || idx >= len(alts) {
				s.replayErr = fmt.Sprintf("decision %d: replayed choice %d out of range (%d alternatives) — nondeterminism not owned", di, idx, len(alts))
				s.abortLocked()
				s.mu.Unlock()
				runtime.Goexit()
			}
		}
		costs := make([]int, len(alts))
		for i := range alts {
			costs[i] = alts[i].cost
			if s.quiet && i != 0 {
				costs[i] = quietCost
			} else if s.strict && i != 0 && costs[i] == 0 {
				costs[i] = 1
			}
		}
		a := alts[idx]
		tid := -1
		if t != nil {
			tid = t.id
		}
		s.points = append(s.points, Point{Task: tid, NAlts: len(alts), Chosen: idx, Costs: costs, Label: a.label, Hash: s.hash})
		s.costSoFar += a.cost
		s.hash = mix(s.hash, a.label)
		s.hash = mix(s.hash, strconv.Itoa(len(alts)))
		switch a.kind {
		case 2:
			s.fireTimer(a.timer)
			continue
		case 0:
			s.grant(a.t, a.selCase)
			s.current = a.t
			if a.t == t {
				s.mu.Unlock()
				return
			}
			s.mu.Unlock()
			a.t.wake <- struct{}{}
		case 1:
			s.grant(a.t, a.selCase)
			s.grant(a.t2, a.selCas2)
			a.t2.afterRole = 2
			s.secondary = a.t2
			s.secArrived = make(chan struct{})
			s.current = a.t
			s.mu.Unlock()
			if a.t2 != t {
				a.t2.wake <- struct{}{}
			}
			if a.t != t {
				a.t.wake <- struct{}{}
			}
			if a.t == t || a.t2 == t {
				return
			}
		}
		if t.done {
			return
		}
		t.park()
		return
	}
}

// grant applies the effect of the granted operation.
func (s *scheduler) grant(t *task, selCase int) {
	o := t.op
	switch o.kind {
	case opLock:
		if o.mu != nil {
			o.mu.held = true
			o.mu.owner = t.id
		} else {
			o.rw.writer = true
		}
	case opRLock:
		o.rw.readers++
	case opSelect:
		o.result = selCase
	}
}

func (s *scheduler) describeBlocked() string {
	var out []string
	for _, u := range s.tasks {
		if !u.done && u.op != nil {
			out = append(out, fmt.Sprintf("t%d(%s) blocked at %s%s", u.id, u.name, kindNames[u.op.kind], u.op.label))
		}
	}
	sort.Strings(out)
	return fmt.Sprint(out)
}

func (s *scheduler) abortLocked() {
	if s.aborted {
		return
	}
	s.aborted = true
	for _, u := range s.tasks {
		if !u.done {
			select {
			case u.wake <- struct{}{}:
			default:
			}
		}
	}
}

func (s *scheduler) finish() {
	if !s.finished {
		s.finished = true
		close(s.doneCh)
	}
}

// Post must be called after every announced channel operation.
func Post() {
	if !S.active {
		return
	}
	t := cur()
	if t == nil || t.afterRole != 2 {
		return
	}
	t.afterRole = 0
	t.op = &op{kind: opYield, label: "(after-rendezvous)"}
	S.mu.Lock()
	close(S.secArrived)
	S.mu.Unlock()
	t.park()
}

// Go starts f as a new registered task.  Outside an exploration it is a plain go statement.
func Go(f func()) {
	GoNamed("", f)
}

func GoNamed(name string, f func()) {
	parent := cur()
	if parent == nil {
		go f()
		return
	}
	S.mu.Lock()
	t := &task{id: len(S.tasks), name: name, wake: make(chan struct{}, 1), op: &op{kind: opStart}}
	S.tasks = append(S.tasks, t)
	S.mu.Unlock()
	ready := make(chan struct{})
	go runTask(t, f, ready)
	<-ready
}

func runTask(t *task, f func(), ready chan struct{}) {
	t.gid = getgid()
	S.mu.Lock()
	S.bygid[t.gid] = t
	S.mu.Unlock()
	defer func() {
		if r := recover(); r != nil {
			buf := make([]byte, 4096)
			n := runtime.Stack(buf, false)
			S.mu.Lock()
			if S.panicVal == "" {
				S.panicVal = fmt.Sprintf("task t%d(%s) panicked: %v\n%s", t.id, t.name, r, buf[:n])
			}
			S.abortLocked()
			S.mu.Unlock()
		}
		S.mu.Lock()
		t.done = true
		t.op = nil
		delete(S.bygid, t.gid)
		if S.aborted {
			alive := 0
			for _, u := range S.tasks {
				if !u.done {
					alive++
				}
			}
			if alive == 0 {
				S.finish()
			}
			S.mu.Unlock()
			return
		}
		S.mu.Unlock()
		S.schedule(t)
	}()
	close(ready)
	t.park()
	f()
}

// Yield is an always-enabled scheduling point.
func Yield(label string) {
	if cur() == nil {
		return
	}
	point(&op{kind: opYield, label: ":" + label})
}

// WaitUntil parks the caller until cond() is true (evaluated by the scheduler at every decision;
// it must be a pure function of state owned by tasks).
func WaitUntil(label string, cond func() bool) {
	if cur() == nil {
		for !cond() {
			runtime.Gosched()
		}
		return
	}
	point(&op{kind: opCustom, label: ":" + label, enabled: cond})
}

// Choice is an environment decision point with n options; option 0 is the default and costs 0,
// option i costs costs[i] (1 when costs is nil).  It is not a task-switching point.
func Choice(n int, label string, costs []int) int {
	t := cur()
	if t == nil {
		return 0
	}
	if S.aborted {
		runtime.Goexit()
	}
	S.mu.Lock()
	s := S
	if len(s.points) >= s.maxPoints {
		s.horizon = true
		s.abortLocked()
		s.mu.Unlock()
		runtime.Goexit()
	}
	idx := 0
	di := len(s.points)
	if di < len(s.prefix) {
		idx = s.prefix[di]
		if idx < 0 || idx >= n {
			s.replayErr = fmt.Sprintf("decision %d: replayed choice %d out of range (%d options of %s)", di, idx, n, label)
			s.abortLocked()
			s.mu.Unlock()
			runtime.Goexit()
		}
	}
	cs := make([]int, n)
	for i := 1; i < n; i++ {
		cs[i] = 1
		if costs != nil {
			cs[i] = costs[i]
		}
		if s.quiet {
			cs[i] = quietCost
		}
	}
	lab := fmt.Sprintf("t%d:choice:%s=%d", t.id, label, idx)
	s.points = append(s.points, Point{Task: t.id, NAlts: n, Chosen: idx, Costs: cs, Label: lab, Hash: s.hash})
	s.costSoFar += cs[idx]
	s.hash = mix(s.hash, lab)
	s.mu.Unlock()
	return idx
}

// ---------------------------------------------------------------------------------------------
// channel announcements (verifgen R3)

func Send(ch interface{}) {
	if cur() == nil {
		return
	}
	point(&op{kind: opSend, ch: reflect.ValueOf(ch)})
}

func Recv(ch interface{}) {
	if cur() == nil {
		return
	}
	point(&op{kind: opRecv, ch: reflect.ValueOf(ch)})
}

// Select announces a select statement and returns the index of the case to execute (-1: default).
// Outside an exploration it returns -2: the caller must run the original select.
func Select(hasDefault bool, cases ...SelCase) int {
	if cur() == nil {
		return -2
	}
	o := &op{kind: opSelect, hasDef: hasDefault}
	for _, c := range cases {
		v := reflect.ValueOf(c.Ch)
		sc := selCase{dir: c.Dir, ch: v}
		if !v.IsValid() || v.IsNil() {
			sc.nil = true
		}
		o.cases = append(o.cases, sc)
	}
	point(o)
	return o.result
}

// SortedKeys returns the keys of map m as a sorted slice ([]K boxed in an interface): verifgen R5
// replaces Go's randomized map iteration order by ascending key order.
func SortedKeys(m interface{}) interface{} {
	v := reflect.ValueOf(m)
	keys := v.MapKeys()
	sort.Slice(keys, func(i, j int) bool { return lessValue(keys[i], keys[j]) })
	out := reflect.MakeSlice(reflect.SliceOf(v.Type().Key()), len(keys), len(keys))
	for i, k := range keys {
		out.Index(i).Set(k)
	}
	return out.Interface()
}

func lessValue(a, b reflect.Value) bool {
	switch a.Kind() {
	case reflect.String:
		return a.String() < b.String()
	case reflect.Int, reflect.Int8, reflect.Int16, reflect.Int32, reflect.Int64:
		return a.Int() < b.Int()
	case reflect.Uint, reflect.Uint8, reflect.Uint16, reflect.Uint32, reflect.Uint64, reflect.Uintptr:
		return a.Uint() < b.Uint()
	case reflect.Bool:
		return !a.Bool() && b.Bool()
	case reflect.Struct:
		for i := 0; i < a.NumField(); i++ {
			if lessValue(a.Field(i), b.Field(i)) {
				return true
			}
			if lessValue(b.Field(i), a.Field(i)) {
				return false
			}
		}
		return false
	case reflect.Chan:
		// registration order (NoteChan, inserted by verifgen -maporder at map insertions)
		return chanLess(a, b)
	case reflect.Ptr, reflect.Interface:
		// no stable order exists for pointers: order by the printed value of what they point to
		return fmt.Sprintf("%v", a) < fmt.Sprintf("%v", b)
	}
	return fmt.Sprintf("%v", a) < fmt.Sprintf("%v", b)
}
