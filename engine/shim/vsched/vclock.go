// +build verif

package vsched

import (
	"sort"
	"time"
)

// Virtual clock.  Now() is strictly increasing (tick counter added as nanoseconds) so that
// before/after comparisons between two reads in program order behave as with the monotonic
// clock.  Time passes only when the harness calls Advance or when no task is enabled and a timer
// or sleeper is pending.

type Timer struct {
	C      <-chan time.Time
	c      chan time.Time
	when   time.Time
	period time.Duration
	f      func()
	active bool
	seq    int
	label  string
}

type Ticker struct {
	C <-chan time.Time
	t *Timer
}

func Now() time.Time {
	if cur() == nil {
		return time.Now()
	}
	S.mu.Lock()
	S.nowTick++
	t := S.now.Add(time.Duration(S.nowTick))
	S.mu.Unlock()
	return t
}

func Since(t time.Time) time.Duration { return Now().Sub(t) }
func Until(t time.Time) time.Duration { return t.Sub(Now()) }

// Advance moves the virtual clock forward by d (harness use).
func Advance(d time.Duration) {
	if cur() == nil {
		return
	}
	S.mu.Lock()
	S.now = S.now.Add(d)
	S.mu.Unlock()
}

func (s *scheduler) addTimer(tm *Timer) {
	s.timerSeq++
	tm.seq = s.timerSeq
	tm.active = true
	s.timers = append(s.timers, tm)
}

func (s *scheduler) dueTimers() []*Timer {
	var due []*Timer
	for _, tm := range s.timers {
		if tm.active && !s.now.Before(tm.when) {
			due = append(due, tm)
		}
	}
	sort.SliceStable(due, func(i, j int) bool {
		if !due[i].when.Equal(due[j].when) {
			return due[i].when.Before(due[j].when)
		}
		return due[i].seq < due[j].seq
	})
	return due
}

// advanceClock jumps to the earliest pending timer or sleeper deadline; false if none.
func (s *scheduler) advanceClock() bool {
	var next time.Time
	found := false
	for _, tm := range s.timers {
		if tm.active && (!found || tm.when.Before(next)) {
			next, found = tm.when, true
		}
	}
	for _, u := range s.tasks {
		if !u.done && u.op != nil && u.op.kind == opSleepUntil && (!found || u.op.until.Before(next)) {
			next, found = u.op.until, true
		}
	}
	if !found || !next.After(s.now) {
		// deadlines not in the future were already considered as alternatives
		if found && next.After(s.now) == false {
			// a sleeper whose deadline has passed is enabled; nothing to advance
			return false
		}
		return false
	}
	s.now = next
	s.nowTick = 0
	// compact the timer list
	live := s.timers[:0]
	for _, tm := range s.timers {
		if tm.active {
			live = append(live, tm)
		}
	}
	s.timers = live
	return true
}

func (s *scheduler) fireTimer(tm *Timer) {
	if tm.period > 0 {
		tm.when = tm.when.Add(tm.period)
		if !tm.when.After(s.now) {
			tm.when = s.now.Add(tm.period)
		}
	} else {
		tm.active = false
	}
	if tm.f != nil {
		// AfterFunc: runs as a new task
		t := &task{id: len(s.tasks), name: "afterfunc", wake: make(chan struct{}, 1), op: &op{kind: opStart}}
		s.tasks = append(s.tasks, t)
		ready := make(chan struct{})
		go runTask(t, tm.f, ready)
		s.mu.Unlock()
		<-ready
		s.mu.Lock()
		return
	}
	select {
	case tm.c <- s.now:
	default:
	}
}

func NewTimer(d time.Duration) *Timer {
	if cur() == nil {
		rt := time.NewTimer(d)
		return &Timer{C: rt.C, f: func() { rt.Stop() }, label: "(real)"}
	}
	c := make(chan time.Time, 1)
	tm := &Timer{C: c, c: c}
	S.mu.Lock()
	tm.when = S.now.Add(d)
	S.addTimer(tm)
	S.mu.Unlock()
	return tm
}

func After(d time.Duration) <-chan time.Time {
	if cur() == nil {
		return time.After(d)
	}
	return NewTimer(d).C
}

func AfterFunc(d time.Duration, f func()) *Timer {
	if cur() == nil {
		rt := time.AfterFunc(d, f)
		return &Timer{f: func() { rt.Stop() }, label: "(real)"}
	}
	tm := &Timer{f: f}
	S.mu.Lock()
	tm.when = S.now.Add(d)
	S.addTimer(tm)
	S.mu.Unlock()
	return tm
}

func (tm *Timer) Stop() bool {
	if tm.label == "(real)" {
		tm.f()
		return true
	}
	S.mu.Lock()
	was := tm.active
	tm.active = false
	S.mu.Unlock()
	return was
}

func (tm *Timer) Reset(d time.Duration) bool {
	if tm.label == "(real)" {
		panic("vsched: Reset on a pass-through timer")
	}
	S.mu.Lock()
	was := tm.active
	tm.when = S.now.Add(d)
	if !tm.active {
		S.addTimer(tm)
	}
	S.mu.Unlock()
	return was
}

func NewTicker(d time.Duration) *Ticker {
	if d <= 0 {
		panic("non-positive interval for NewTicker")
	}
	if cur() == nil {
		rt := time.NewTicker(d)
		return &Ticker{C: rt.C, t: &Timer{f: func() { rt.Stop() }, label: "(real)"}}
	}
	c := make(chan time.Time, 1)
	tm := &Timer{C: c, c: c, period: d}
	S.mu.Lock()
	tm.when = S.now.Add(d)
	S.addTimer(tm)
	S.mu.Unlock()
	return &Ticker{C: c, t: tm}
}

func (tk *Ticker) Stop() { tk.t.Stop() }

func Tick(d time.Duration) <-chan time.Time { return NewTicker(d).C }

// Sleep parks the caller until the virtual clock has advanced by d.
func Sleep(d time.Duration) {
	if cur() == nil {
		time.Sleep(d)
		return
	}
	S.mu.Lock()
	until := S.now.Add(d)
	S.mu.Unlock()
	point(&op{kind: opSleepUntil, until: until})
}
