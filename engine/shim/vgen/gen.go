// +build verif

package vgen

// Odometer-style bounded-exhaustive generators.  Simplest cases first.

// BlockAlpha is a block alphabet entry.
type BlockAlpha struct {
	Variant int
	Size    int
}

// BlockTuples returns every tuple of length 1..maxLen over alpha (shorter first).
func BlockTuples(alpha []BlockAlpha, maxLen int) [][]Block {
	var out [][]Block
	var rec func(cur []Block, n int)
	rec = func(cur []Block, n int) {
		if len(cur) == n {
			out = append(out, append([]Block(nil), cur...))
			return
		}
		for _, a := range alpha {
			rec(append(cur, Block{Variant: a.Variant, Size: a.Size}), n)
		}
	}
	for n := 1; n <= maxLen; n++ {
		rec(nil, n)
	}
	return out
}

// Spans returns every (pos,len) with pos+len <= streamLen, zero-length spans at every position
// included, ordered by len then pos.
func Spans(streamLen int) [][2]int {
	var out [][2]int
	for l := 0; l <= streamLen; l++ {
		for p := 0; p+l <= streamLen; p++ {
			out = append(out, [2]int{p, l})
		}
	}
	return out
}

// EachFileList enumerates file-token lists for a stream of the given length: nTok tokens
// (1..maxTok), each with every span; token i takes its name from names[i] (a list of candidate
// names for that position).
func EachFileList(streamLen, maxTok int, names [][]string, f func([]FileTok)) {
	spans := Spans(streamLen)
	var rec func(cur []FileTok, n int)
	rec = func(cur []FileTok, n int) {
		if len(cur) == n {
			f(append([]FileTok(nil), cur...))
			return
		}
		for _, nm := range names[len(cur)] {
			for _, sp := range spans {
				rec(append(cur, FileTok{Pos: sp[0], Len: sp[1], Name: nm}), n)
			}
		}
	}
	for n := 1; n <= maxTok; n++ {
		rec(nil, n)
	}
}

// Names (escaped form) that exercise every escaping rule the codecs implement.
var EscNames = []string{
	"a",
	"b",
	`a\040b`,      // space
	"a:b",         // raw colon (legal in a file name: split on the first two colons only)
	`a\134b`,      // backslash
	`a\134101`,    // backslash followed by three octal digits
	`a\134\134b`,  // two backslashes
	"s/t",         // file token naming a subdirectory
	"\xc3\xa9",    // non-ASCII bytes, raw
	`\303\251x`,   // non-ASCII bytes, escaped
	`a\072b`,      // escaped colon
	`q\0401\040z`, // several escapes
}

var StreamNames = []string{".", "./d", `./d\040e`, "./d/f"}
