// +build verif

// Package vgen holds the bounded-exhaustive generators and the boring reference models shared by
// several harnesses: manifests of the published grammar with a synthetic block store, and a
// spec interpreter written from doc/architecture/manifest-format.html.textile.liquid.
package vgen

import (
	"crypto/md5"
	"fmt"
	"sort"
	"strconv"
	"strings"
)

// Block is a data block of the synthetic store.  Content is a deterministic function of
// (Variant, Size), the hash is its real MD5.
type Block struct {
	Variant int
	Size    int
	Hints   string // "+Afoo@bar" etc, appended verbatim
}

func BlockData(variant, size int) []byte {
	b := make([]byte, size)
	for i := range b {
		b[i] = byte('A' + (variant*7+i*3)%26)
		if variant >= 26 {
			b[i] = byte('a' + (variant+i*5)%26)
		}
	}
	return b
}

func (b Block) Data() []byte { return BlockData(b.Variant, b.Size) }

func (b Block) Hash() string { return fmt.Sprintf("%x", md5.Sum(b.Data())) }

func (b Block) Locator() string {
	return b.Hash() + "+" + strconv.Itoa(b.Size) + b.Hints
}

// FileTok is a file token; Name is in *escaped* (manifest text) form.
type FileTok struct {
	Pos, Len int
	Name     string
}

type Stream struct {
	Name   string // escaped form, "." or "./..."
	Blocks []Block
	Files  []FileTok
}

type Manifest []Stream

func (s Stream) Len() int {
	n := 0
	for _, b := range s.Blocks {
		n += b.Size
	}
	return n
}

func (s Stream) Text() string {
	toks := []string{s.Name}
	for _, b := range s.Blocks {
		toks = append(toks, b.Locator())
	}
	for _, f := range s.Files {
		toks = append(toks, fmt.Sprintf("%d:%d:%s", f.Pos, f.Len, f.Name))
	}
	return strings.Join(toks, " ") + "\n"
}

func (m Manifest) Text() string {
	var sb strings.Builder
	for _, s := range m {
		sb.WriteString(s.Text())
	}
	return sb.String()
}

// Store returns the synthetic block store content for every block of m, keyed by hash.
func (m Manifest) Store() map[string][]byte {
	st := map[string][]byte{}
	for _, s := range m {
		for _, b := range s.Blocks {
			st[b.Hash()] = b.Data()
		}
	}
	return st
}

// ---------------------------------------------------------------------------------------------
// Spec interpreter (reference model).  Written from the format document only:
//  * tokens separated by single spaces, streams terminated by newline
//  * \ooo (three octal digits) stands for that byte in stream names and file names
//  * locators are concatenated into a data stream; a file token pos:size:name denotes size
//    bytes from pos; several tokens with the same stream name + "/" + filename are
//    concatenated in order of appearance (also across streams).

type Seg struct {
	Locator string
	Offset  int
	Len     int
}

func SpecUnescape(s string) string {
	var out []byte
	for i := 0; i < len(s); i++ {
		if s[i] == '\\' && i+3 < len(s) && isOct(s[i+1]) && isOct(s[i+2]) && isOct(s[i+3]) {
			v := int(s[i+1]-'0')*64 + int(s[i+2]-'0')*8 + int(s[i+3]-'0')
			if v < 256 {
				out = append(out, byte(v))
				i += 3
				continue
			}
		}
		out = append(out, s[i])
	}
	return string(out)
}

func isOct(c byte) bool { return c >= '0' && c <= '7' }

// SpecEscape escapes what a writer has to escape so that SpecUnescape gives the name back.
func SpecEscape(s string) string {
	var sb strings.Builder
	for i := 0; i < len(s); i++ {
		c := s[i]
		if c <= 32 || c == '\\' || c == ':' {
			fmt.Fprintf(&sb, "\\%03o", c)
		} else {
			sb.WriteByte(c)
		}
	}
	return sb.String()
}

// SpecResult is what the grammar's semantics define for a manifest text.
type SpecResult struct {
	Files map[string][]Seg // path without leading "./" -> non-empty segments in order
	Order []string         // paths in order of first appearance
	Dirs  map[string]bool  // every directory named by a stream or a file path ("" = root not included)
}

// SpecParse interprets manifest text.  It returns an error for text that is not valid under the
// grammar (as far as the harnesses need: token shapes, ranges within the stream).
func SpecParse(text string) (*SpecResult, error) {
	res := &SpecResult{Files: map[string][]Seg{}, Dirs: map[string]bool{}}
	if text == "" {
		return res, nil
	}
	if !strings.HasSuffix(text, "\n") {
		return nil, fmt.Errorf("no trailing newline")
	}
	lines := strings.Split(text[:len(text)-1], "\n")
	for ln, line := range lines {
		toks := strings.Split(line, " ")
		if len(toks) < 3 {
			return nil, fmt.Errorf("line %d: fewer than 3 tokens", ln+1)
		}
		sname := toks[0]
		if sname != "." && !strings.HasPrefix(sname, "./") {
			return nil, fmt.Errorf("line %d: bad stream name %q", ln+1, sname)
		}
		for _, comp := range strings.Split(sname, "/")[1:] {
			if comp == "" || comp == "." || comp == ".." {
				return nil, fmt.Errorf("line %d: bad stream name %q", ln+1, sname)
			}
		}
		type blk struct {
			loc   string
			start int
			size  int
		}
		var blocks []blk
		pos := 0
		i := 1
		for ; i < len(toks); i++ {
			size, ok := specLocatorSize(toks[i])
			if !ok {
				break
			}
			blocks = append(blocks, blk{toks[i], pos, size})
			pos += size
		}
		if len(blocks) == 0 {
			return nil, fmt.Errorf("line %d: no locators", ln+1)
		}
		if i == len(toks) {
			return nil, fmt.Errorf("line %d: no file tokens", ln+1)
		}
		dir := strings.TrimPrefix(strings.TrimPrefix(SpecUnescape(sname), "."), "/")
		addDirs(res.Dirs, dir)
		for ; i < len(toks); i++ {
			parts := strings.SplitN(toks[i], ":", 3)
			if len(parts) != 3 || !allDigits(parts[0]) || !allDigits(parts[1]) || parts[2] == "" {
				return nil, fmt.Errorf("line %d: bad file token %q", ln+1, toks[i])
			}
			fpos, _ := strconv.Atoi(parts[0])
			flen, _ := strconv.Atoi(parts[1])
			if fpos+flen > pos {
				return nil, fmt.Errorf("line %d: file token %q past end of stream", ln+1, toks[i])
			}
			for _, comp := range strings.Split(parts[2], "/") {
				if comp == "" || comp == "." || comp == ".." {
					return nil, fmt.Errorf("line %d: bad file name %q", ln+1, parts[2])
				}
			}
			name := SpecUnescape(parts[2])
			path := name
			if dir != "" {
				path = dir + "/" + name
			}
			if k := strings.LastIndex(path, "/"); k >= 0 {
				addDirs(res.Dirs, path[:k])
			}
			if _, ok := res.Files[path]; !ok {
				res.Files[path] = nil
				res.Order = append(res.Order, path)
			}
			for _, b := range blocks {
				lo, hi := fpos, fpos+flen
				if b.start > lo {
					lo = b.start
				}
				if b.start+b.size < hi {
					hi = b.start + b.size
				}
				if hi > lo {
					res.Files[path] = append(res.Files[path], Seg{b.loc, lo - b.start, hi - lo})
				}
			}
		}
	}
	return res, nil
}

func addDirs(dirs map[string]bool, d string) {
	for d != "" {
		dirs[d] = true
		k := strings.LastIndex(d, "/")
		if k < 0 {
			break
		}
		d = d[:k]
	}
}

func allDigits(s string) bool {
	if s == "" {
		return false
	}
	for i := 0; i < len(s); i++ {
		if s[i] < '0' || s[i] > '9' {
			return false
		}
	}
	return true
}

// specLocatorSize recognises  <32 lowercase hex> "+" [0-9]+ ("+" [A-Z][-A-Za-z0-9@_]*)*
func specLocatorSize(tok string) (int, bool) {
	if len(tok) < 34 || tok[32] != '+' {
		return 0, false
	}
	for i := 0; i < 32; i++ {
		c := tok[i]
		if !(c >= '0' && c <= '9' || c >= 'a' && c <= 'f') {
			return 0, false
		}
	}
	parts := strings.Split(tok[33:], "+")
	if !allDigits(parts[0]) {
		return 0, false
	}
	for _, h := range parts[1:] {
		if h == "" || h[0] < 'A' || h[0] > 'Z' {
			return 0, false
		}
		for i := 1; i < len(h); i++ {
			c := h[i]
			if !(c >= '0' && c <= '9' || c >= 'a' && c <= 'z' || c >= 'A' && c <= 'Z' || c == '@' || c == '_' || c == '-') {
				return 0, false
			}
		}
	}
	n, err := strconv.Atoi(parts[0])
	if err != nil {
		return 0, false
	}
	return n, true
}

// LocatorHash returns the 32-hex part of a locator.
func LocatorHash(loc string) string {
	if len(loc) >= 32 {
		return loc[:32]
	}
	return loc
}

// SegBytes concatenates the bytes the segments denote, reading blocks from store (keyed by hash).
// ok is false when a block is missing or a segment exceeds its block.
func SegBytes(segs []Seg, store map[string][]byte) ([]byte, bool) {
	var out []byte
	for _, s := range segs {
		data, ok := store[LocatorHash(s.Locator)]
		if !ok || s.Offset < 0 || s.Len < 0 || s.Offset+s.Len > len(data) {
			return nil, false
		}
		out = append(out, data[s.Offset:s.Offset+s.Len]...)
	}
	return out, true
}

// SpecBytes: path -> content, for a manifest text over store.
func SpecBytes(text string, store map[string][]byte) (map[string][]byte, *SpecResult, error) {
	res, err := SpecParse(text)
	if err != nil {
		return nil, nil, err
	}
	out := map[string][]byte{}
	for p, segs := range res.Files {
		b, ok := SegBytes(segs, store)
		if !ok {
			return nil, nil, fmt.Errorf("file %q refers to data not in the store", p)
		}
		out[p] = b
	}
	return out, res, nil
}

func SortedKeys(m map[string][]byte) []string {
	ks := make([]string, 0, len(m))
	for k := range m {
		ks = append(ks, k)
	}
	sort.Strings(ks)
	return ks
}

// PathConflict reports whether some path is used both as a file and as a directory (such a
// manifest is outside what any codec is asked to agree on).
func (r *SpecResult) PathConflict() bool {
	for p := range r.Files {
		if r.Dirs[p] {
			return true
		}
	}
	return false
}
