// +build verif

// Package vrep is the reporting side of every harness: counts what was explored, collects
// violations with stable signatures, and writes the shard report that bin/check merges into
// /verif/evidence/<id>.json.  go1.13 language subset (the repository module says go 1.13).
package vrep

import (
	"crypto/sha1"
	"encoding/json"
	"fmt"
	"io/ioutil"
	"os"
	"sort"
	"strconv"
	"strings"
	"sync"
	"time"
)

type Violation struct {
	Part      string      `json:"part"`
	Signature string      `json:"signature"`
	Detail    string      `json:"detail"`
	Replay    interface{} `json:"replay,omitempty"`
}

type Report struct {
	mtx         sync.Mutex
	Property    string
	Part        string
	Evaluations int64
	States      int64
	Transitions int64
	Traces      int64
	distinct    map[string]bool
	outcomes    map[string]int64
	samples     []interface{}
	violations  []Violation
	vsigs       map[string]int
	Exhaustive  bool
	extra       map[string]interface{}
	notes       []string
	start       time.Time
	deadline    time.Time
}

func New(property, part string) *Report {
	r := &Report{Property: property, Part: part, Exhaustive: true,
		distinct: map[string]bool{}, outcomes: map[string]int64{}, vsigs: map[string]int{},
		extra: map[string]interface{}{}, start: time.Now()}
	if d := os.Getenv("VERIF_BUDGET_S"); d != "" {
		if n, err := strconv.Atoi(d); err == nil && n > 0 {
			r.deadline = r.start.Add(time.Duration(n) * time.Second)
		}
	}
	return r
}

// Tier is "quick" or "thorough".
func Tier() string {
	if t := os.Getenv("VERIF_TIER"); t == "thorough" {
		return t
	}
	return "quick"
}

func Thorough() bool { return Tier() == "thorough" }

// Shard returns (index, count) of this worker process.
func Shard() (int, int) {
	s := os.Getenv("VERIF_SHARD")
	if s == "" {
		return 0, 1
	}
	p := strings.SplitN(s, "/", 2)
	i, _ := strconv.Atoi(p[0])
	n, _ := strconv.Atoi(p[1])
	if n < 1 {
		n = 1
	}
	return i, n
}

// Mine reports whether case number idx belongs to this shard.
func Mine(idx int64) bool {
	i, n := Shard()
	return int(idx%int64(n)) == i
}

func Scratch() string {
	d := os.Getenv("VERIF_SCRATCH")
	if d == "" {
		d = "/dev/shm/verif-manual"
	}
	os.MkdirAll(d, 0777)
	return d
}

// OutOfBudget reports whether the internal wall-clock budget (VERIF_BUDGET_S) is spent.  A harness
// that stops because of it must call NotExhaustive(): an internal deadline is never a violation.
func (r *Report) OutOfBudget() bool {
	return !r.deadline.IsZero() && time.Now().After(r.deadline)
}

func (r *Report) NotExhaustive(why string) {
	r.mtx.Lock()
	defer r.mtx.Unlock()
	r.Exhaustive = false
	r.note(why)
}

func (r *Report) note(s string) {
	for _, n := range r.notes {
		if n == s {
			return
		}
	}
	r.notes = append(r.notes, s)
}

func (r *Report) Note(s string) {
	r.mtx.Lock()
	defer r.mtx.Unlock()
	r.note(s)
}

func (r *Report) Eval(n int64) {
	r.mtx.Lock()
	r.Evaluations += n
	r.mtx.Unlock()
}

// Distinct records a key of a case that is non-trivial by the harness's stated rule.  Keys are
// hashed (the merged evidence counts the union over shards).
func (r *Report) Distinct(key string) {
	h := sha1.Sum([]byte(key))
	k := fmt.Sprintf("%x", h[:8])
	r.mtx.Lock()
	r.distinct[k] = true
	r.mtx.Unlock()
}

// Outcome counts an observed outcome signature (few distinct values; kept verbatim).
func (r *Report) Outcome(sig string) {
	r.mtx.Lock()
	r.outcomes[sig]++
	r.mtx.Unlock()
}

func (r *Report) Sample(s interface{}) {
	r.mtx.Lock()
	if len(r.samples) < 6 {
		r.samples = append(r.samples, s)
	}
	r.mtx.Unlock()
}

func (r *Report) Extra(k string, v interface{}) {
	r.mtx.Lock()
	r.extra[k] = v
	r.mtx.Unlock()
}

func (r *Report) AddExtra(k string, n int64) {
	r.mtx.Lock()
	old, _ := r.extra[k].(int64)
	r.extra[k] = old + n
	r.mtx.Unlock()
}

// Violation records a failing case.  signature must be stable across runs and identify the
// failing input / call site / history class (it is what known_findings.json matches on).
func (r *Report) Violation(signature, detail string, replay interface{}) {
	r.mtx.Lock()
	defer r.mtx.Unlock()
	r.vsigs[signature]++
	if r.vsigs[signature] > 3 || len(r.violations) >= 200 {
		return
	}
	r.violations = append(r.violations, Violation{Part: r.Part, Signature: signature, Detail: detail, Replay: replay})
}

func (r *Report) Violations() int {
	r.mtx.Lock()
	defer r.mtx.Unlock()
	n := 0
	for _, c := range r.vsigs {
		n += c
	}
	return n
}

// Write writes the shard report to $VERIF_OUT (or stdout when unset).
func (r *Report) Write() {
	r.mtx.Lock()
	defer r.mtx.Unlock()
	keys := make([]string, 0, len(r.distinct))
	for k := range r.distinct {
		keys = append(keys, k)
	}
	sort.Strings(keys)
	r.extra["wall_s_"+r.Part] = time.Since(r.start).Seconds()
	doc := map[string]interface{}{
		"property":      r.Property,
		"part":          r.Part,
		"evaluations":   r.Evaluations,
		"states":        r.States,
		"transitions":   r.Transitions,
		"traces":        r.Traces,
		"distinct_keys": keys,
		"outcomes":      r.outcomes,
		"samples":       r.samples,
		"violations":    r.violations,
		"exhaustive":    r.Exhaustive,
		"extra":         r.extra,
		"notes":         r.notes,
	}
	buf, err := json.Marshal(doc)
	if err != nil {
		panic(err)
	}
	out := os.Getenv("VERIF_OUT")
	if out == "" {
		os.Stdout.Write(buf)
		os.Stdout.Write([]byte("\n"))
		return
	}
	if err := ioutil.WriteFile(out+".tmp", buf, 0666); err != nil {
		panic(err)
	}
	if err := os.Rename(out+".tmp", out); err != nil {
		panic(err)
	}
}

// ReplayDoc returns the "replay" member of the file named by $VERIF_REPLAY decoded into v, and
// true, when the check runs in replay mode.
func ReplayDoc(v interface{}) bool {
	p := os.Getenv("VERIF_REPLAY")
	if p == "" {
		return false
	}
	buf, err := ioutil.ReadFile(p)
	if err != nil {
		panic(err)
	}
	var doc struct {
		Replay json.RawMessage `json:"replay"`
	}
	if err := json.Unmarshal(buf, &doc); err != nil {
		panic(err)
	}
	if err := json.Unmarshal(doc.Replay, v); err != nil {
		panic(err)
	}
	return true
}
