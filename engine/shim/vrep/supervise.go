// +build verif

package vrep

import (
	"bytes"
	"fmt"
	"io/ioutil"
	"os"
	"os/exec"
	"regexp"
	"strconv"
	"strings"
	"sync/atomic"
	"time"
)

// Cases numbers the cases of an enumeration, selects the ones of this shard, and (in a
// supervised child) records the case in progress so that a crash or hang of the code under test
// — a panic in a goroutine the code started itself cannot be recovered — is attributed to the
// exact input by the supervising parent.
type Cases struct {
	idx      int64
	resume   int64
	progress *os.File
	cur      int64 // atomic copy of idx for the watchdog
	curSince int64
	R        *Report
}

// Do runs fn for case number idx (assigned in enumeration order) if it belongs to this shard and
// lies after the resume point.  descr is only evaluated for cases that run.
func (c *Cases) Do(descr func() string, fn func()) {
	c.idx++
	if c.idx <= c.resume || !Mine(c.idx) {
		return
	}
	if c.progress != nil {
		d := descr()
		if len(d) > 3500 {
			d = d[:3500]
		}
		c.progress.WriteAt([]byte(fmt.Sprintf("%d\n%s\n\x00", c.idx, d)), 0)
		atomic.StoreInt64(&c.cur, c.idx)
		atomic.StoreInt64(&c.curSince, time.Now().UnixNano())
	}
	fn()
}

func (c *Cases) Index() int64 { return c.idx }

var digitsRe = regexp.MustCompile(`[0-9]+`)
var hexRe = regexp.MustCompile(`0x[0-9a-f]+|[0-9a-f]{32}`)

// Supervise runs body in a child process of the same test binary, restarting after each crash at
// the case following the offending one.  Every crash/hang becomes a violation with signature
// "crash:<normalized first panic line>".  The child's reports are written next to $VERIF_OUT and
// merged by bin/check.
func Supervise(testName, property, part string, body func(c *Cases)) {
	out := os.Getenv("VERIF_OUT")
	if os.Getenv("VERIF_CHILD") != "" || out == "" {
		r := New(property, part)
		c := &Cases{R: r}
		if s := os.Getenv("VERIF_RESUME"); s != "" {
			c.resume, _ = strconv.ParseInt(s, 10, 64)
		}
		if p := os.Getenv("VERIF_PROGRESS"); p != "" {
			f, err := os.OpenFile(p, os.O_RDWR|os.O_CREATE, 0666)
			if err != nil {
				panic(err)
			}
			c.progress = f
			go func() {
				for {
					time.Sleep(5 * time.Second)
					since := atomic.LoadInt64(&c.curSince)
					if since != 0 && time.Since(time.Unix(0, since)) > 120*time.Second {
						fmt.Fprintf(os.Stderr, "\npanic: VERIF-HANG case %d made no progress for 120s\n", atomic.LoadInt64(&c.cur))
						os.Exit(3)
					}
				}
			}()
		}
		body(c)
		atomic.StoreInt64(&c.curSince, 0)
		r.Write()
		return
	}
	parent := New(property, part)
	resume := int64(0)
	crashes := 0
	for attempt := 0; ; attempt++ {
		progress := fmt.Sprintf("%s.progress", out)
		os.Remove(progress)
		cmd := exec.Command(os.Args[0], "-test.run", "^"+testName+"$", "-test.timeout", "0", "-test.count", "1")
		cmd.Env = append(os.Environ(), "VERIF_CHILD=1", fmt.Sprintf("VERIF_RESUME=%d", resume),
			fmt.Sprintf("VERIF_OUT=%s.child%d", out, attempt), "VERIF_PROGRESS="+progress)
		var buf bytes.Buffer
		cmd.Stdout = &buf
		cmd.Stderr = &buf
		err := cmd.Run()
		if err == nil {
			break
		}
		crashes++
		pb, _ := ioutil.ReadFile(progress)
		if k := bytes.IndexByte(pb, 0); k >= 0 {
			pb = pb[:k]
		}
		lines := strings.SplitN(string(pb), "\n", 2)
		idx, perr := strconv.ParseInt(strings.TrimSpace(lines[0]), 10, 64)
		if perr != nil || len(lines) < 2 {
			// crashed before the first case: infrastructure failure, let bin/check see it
			fmt.Fprintf(os.Stderr, "child crashed before any case:\n%s\n", tail(buf.String(), 4000))
			os.Exit(2)
		}
		descr := strings.TrimSuffix(lines[1], "\n")
		output := buf.String()
		first := "exit: " + err.Error()
		for _, l := range strings.Split(output, "\n") {
			if strings.HasPrefix(l, "panic: ") || strings.HasPrefix(l, "fatal error: ") {
				first = l
				break
			}
		}
		sig := "crash:" + digitsRe.ReplaceAllString(hexRe.ReplaceAllString(first, "H"), "N")
		parent.Violation(sig, fmt.Sprintf("process died while handling case %d: %s\n%s", idx, descr, tail(output, 1500)),
			map[string]interface{}{"case": descr})
		parent.Eval(1)
		resume = idx
		if crashes >= 25 {
			parent.NotExhaustive("stopped after 25 crashes of the code under test")
			break
		}
	}
	parent.AddExtra("child_crashes", int64(crashes))
	parent.Write()
}

func tail(s string, n int) string {
	if len(s) <= n {
		return s
	}
	return s[len(s)-n:]
}
