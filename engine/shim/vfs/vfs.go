//go:build verif
// +build verif

// Package vfs is the runtime side of verifgen's rewrite R6/R7 (-fspoints files): every filesystem
// step of the instrumented file calls vfs.Point("<func>:<callee>#<n>") immediately before it is
// made, data writes of io.Copy(file, ...) go through vfs.Writer, flock(2) requests through
// vfs.Flock and io.Pipe() through vfs.Pipe.
//
// Modes (the first that applies):
//
//   - scheduling mode: the caller is a task of a vsched execution.  Point is a scheduling point
//     (vsched.Yield(label)), so interleavings of the filesystem steps of concurrent requests are
//     explored; before yielding, the harness hook (SetHook) is called with the ordinal of the point
//     inside the execution — a harness cancels a request context "at point k" that way.  A blocking
//     Flock parks the task until a non-blocking attempt on the real descriptor can succeed (the
//     kernel stays the source of truth).  Pipe is built from scheduler waits.
//   - kill mode: environment VERIF_KILL_AT=k (k >= 1).  The process sends itself SIGKILL immediately
//     before its k-th point (counted from process start or from the last Reset()).  For a data
//     write, VERIF_KILL_PREFIX=half|allbut1 first writes that prefix of the chunk, then kills.
//     Immediately before dying it writes "VFS-KILL <k> <prefixbytes> <label>\n" to stderr.
//   - count mode: between StartCount() and StopCount() every point is recorded (label, chunk size).
//   - otherwise Point is a no-op, Writer passes through, Flock is the plain system call and Pipe is
//     io.Pipe.
//
// go1.13 language subset.
package vfs

import (
	"fmt"
	"io"
	"os"
	"strconv"
	"sync"
	"syscall"

	"git.arvados.org/arvados.git/lib/verifshim/vsched"
)

// Rec is one recorded point.  Bytes is the chunk length for a data write, -1 otherwise.
type Rec struct {
	Label string `json:"label"`
	Bytes int    `json:"bytes"`
}

var (
	mu         sync.Mutex
	killAt     int    // > 0: kill mode
	killPrefix string // "", "half", "allbut1"
	killN      int
	counting   bool
	recs       []Rec
	execN      int
	execRecs   []Rec
	hook       func(n int, label string)
	quietBetw  bool
)

func init() {
	if s := os.Getenv("VERIF_KILL_AT"); s != "" {
		if n, err := strconv.Atoi(s); err == nil && n > 0 {
			killAt = n
		}
	}
	switch p := os.Getenv("VERIF_KILL_PREFIX"); p {
	case "half", "allbut1":
		killPrefix = p
	}
}

// KillMode reports the kill point of this process (0: not in kill mode).
func KillMode() int { return killAt }

// Reset restarts the numbering of points (kill mode, scheduling mode) and drops recorded points.
func Reset() {
	mu.Lock()
	killN = 0
	execN = 0
	execRecs = nil
	recs = nil
	mu.Unlock()
}

// StartCount enters count mode (and resets the numbering).
func StartCount() {
	Reset()
	mu.Lock()
	counting = true
	mu.Unlock()
}

// StopCount leaves count mode and returns the points recorded since StartCount.
func StopCount() []Rec {
	mu.Lock()
	defer mu.Unlock()
	counting = false
	out := recs
	recs = nil
	return out
}

// SetHook installs f, called (scheduling mode only) by the task that reaches a point, before it
// yields, with the 1-based ordinal of the point since the last Reset.  nil removes the hook.
func SetHook(f func(n int, label string)) {
	mu.Lock()
	hook = f
	mu.Unlock()
}

// BranchOnlyAtPoints(true): in scheduling mode the explorer is offered alternatives only at the
// decisions taken AT filesystem points (vsched.Quiet is switched off for the point's own decision
// and on again by the task that resumes from a point); all other decisions — channel plumbing,
// goroutine starts, mutexes — follow the deterministic default (lowest task id first).  The disk
// is only touched at points, so every interleaving of filesystem steps that differs in an
// observable way is still produced by switching at points; what is lost are different hand-over
// orders among the helper goroutines of ONE request.  (If the task picked at a point was parked
// somewhere else, exploration stays unrestricted until the next task resumes from a point: more
// executions, never fewer behaviours.)  The harness starts its body with vsched.Quiet(true).
func BranchOnlyAtPoints(on bool) {
	mu.Lock()
	quietBetw = on
	mu.Unlock()
}

// ExecPoints returns the points hit in scheduling mode since the last Reset.
func ExecPoints() []Rec {
	mu.Lock()
	defer mu.Unlock()
	return append([]Rec(nil), execRecs...)
}

// PrefixLen is the number of bytes of a chunk of n bytes written before the kill in the given
// VERIF_KILL_PREFIX mode.
func PrefixLen(mode string, n int) int {
	switch mode {
	case "half":
		return n / 2
	case "allbut1":
		if n > 0 {
			return n - 1
		}
	}
	return 0
}

func die(n int, label string, prefix int) {
	msg := fmt.Sprintf("VFS-KILL %d %d %s\n", n, prefix, label)
	syscall.Write(2, []byte(msg))
	syscall.Kill(syscall.Getpid(), syscall.SIGKILL)
	select {} // never continue past the kill point
}

// Point marks the instant immediately before a filesystem step.
func Point(label string) { step(label, -1) }

func step(label string, nbytes int) {
	if vsched.Active() {
		mu.Lock()
		execN++
		n := execN
		execRecs = append(execRecs, Rec{label, nbytes})
		h := hook
		qb := quietBetw
		mu.Unlock()
		if h != nil {
			h(n, label)
		}
		if qb {
			vsched.Quiet(false)
		}
		vsched.Yield(label)
		if qb {
			vsched.Quiet(true)
		}
		return
	}
	if killAt > 0 {
		mu.Lock()
		killN++
		n := killN
		mu.Unlock()
		if n == killAt {
			die(n, label, 0)
		}
		return
	}
	mu.Lock()
	if counting {
		recs = append(recs, Rec{label, nbytes})
	}
	mu.Unlock()
}

type writer struct {
	label string
	w     io.Writer
}

// Writer wraps the destination of io.Copy(file, src): a point before every write(2).  The wrapper
// deliberately hides io.ReaderFrom so that the copy is made of explicit Write calls (what
// (*os.File).ReadFrom does for a non-file source anyway: 32 KiB chunks).
func Writer(label string, w io.Writer) io.Writer { return &writer{label, w} }

func (x *writer) Write(p []byte) (int, error) {
	if killAt > 0 && !vsched.Active() {
		mu.Lock()
		killN++
		n := killN
		mu.Unlock()
		if n == killAt {
			m := PrefixLen(killPrefix, len(p))
			if m > 0 {
				x.w.Write(p[:m])
			}
			die(n, x.label, m)
		}
		return x.w.Write(p)
	}
	step(x.label, len(p))
	return x.w.Write(p)
}

// Flock stands in for syscall.Flock.  In scheduling mode a blocking request is a non-blocking
// attempt on the real descriptor; while that would block the task is parked until a probe (lock
// and immediately unlock through the waiter's own descriptor, made by the scheduler while no task
// runs) succeeds.  Everywhere else it is the plain system call.
func Flock(fd int, how int) error {
	if !vsched.Active() || how&syscall.LOCK_NB != 0 || how&(syscall.LOCK_EX|syscall.LOCK_SH) == 0 {
		return syscall.Flock(fd, how)
	}
	for {
		err := syscall.Flock(fd, how|syscall.LOCK_NB)
		if err == syscall.EINTR {
			continue
		}
		if err != syscall.EWOULDBLOCK {
			return err
		}
		vsched.WaitUntil("flock", func() bool {
			for {
				e := syscall.Flock(fd, how|syscall.LOCK_NB)
				if e == syscall.EINTR {
					continue
				}
				if e == nil {
					syscall.Flock(fd, syscall.LOCK_UN)
					return true
				}
				// any other error: let the task run and see it
				return e != syscall.EWOULDBLOCK
			}
		})
	}
}
