//go:build verif
// +build verif

package vfs

import (
	"io"

	"git.arvados.org/arvados.git/lib/verifshim/vsched"
)

// Pipe stands in for io.Pipe (verifgen R7).  Created by a task of a vsched execution it is a
// model of io.Pipe's documented behaviour built from scheduler waits (an uninstrumented io.Pipe
// between two tasks would block the baton holder inside the standard library); created anywhere
// else it is io.Pipe itself.
//
// Semantics reproduced from package io: a Write blocks until readers have consumed all of its
// data or an end is closed; writes are serialised; a Read returns at most the rest of the current
// write; Read/Write test for "closed" first; after CloseWithError(err) by the writer, reads return
// err (io.EOF when err is nil); after a close by the reader, writes return that error
// (io.ErrClosedPipe when nil); the first error stored on an end wins.  When a parked reader could
// be served by a pending write and the pipe is closed as well, the write came first (nothing is
// offered after a close), so the reader gets the data, as with the real pipe.  Which of several
// parked readers gets a chunk is a scheduler decision (io.Pipe: arrival order) — a superset.
func Pipe() (*PipeReader, *PipeWriter) {
	if !vsched.Active() {
		r, w := io.Pipe()
		return &PipeReader{real: r}, &PipeWriter{real: w}
	}
	p := &pipe{}
	return &PipeReader{p: p}, &PipeWriter{p: p}
}

type PipeReader struct {
	real *io.PipeReader
	p    *pipe
}

type PipeWriter struct {
	real *io.PipeWriter
	p    *pipe
}

func (r *PipeReader) Read(b []byte) (int, error) {
	if r.real != nil {
		return r.real.Read(b)
	}
	return r.p.read(b)
}

func (r *PipeReader) Close() error { return r.CloseWithError(nil) }

func (r *PipeReader) CloseWithError(err error) error {
	if r.real != nil {
		return r.real.CloseWithError(err)
	}
	if err == nil {
		err = io.ErrClosedPipe
	}
	if r.p.rerr == nil {
		r.p.rerr = err
	}
	r.p.done = true
	return nil
}

func (w *PipeWriter) Write(b []byte) (int, error) {
	if w.real != nil {
		return w.real.Write(b)
	}
	return w.p.write(b)
}

func (w *PipeWriter) Close() error { return w.CloseWithError(nil) }

func (w *PipeWriter) CloseWithError(err error) error {
	if w.real != nil {
		return w.real.CloseWithError(err)
	}
	if err == nil {
		err = io.EOF
	}
	if w.p.werr == nil {
		w.p.werr = err
	}
	w.p.done = true
	return nil
}

// pipe: plain fields — only the task holding the scheduler's baton runs.
type pipe struct {
	wrBusy   bool
	offer    []byte
	hasOffer bool
	taken    bool
	nr       int
	done     bool
	rerr     error
	werr     error
}

func (p *pipe) readCloseError() error {
	if p.rerr == nil && p.werr != nil {
		return p.werr
	}
	return io.ErrClosedPipe
}

func (p *pipe) writeCloseError() error {
	if p.werr == nil && p.rerr != nil {
		return p.rerr
	}
	return io.ErrClosedPipe
}

func (p *pipe) read(b []byte) (int, error) {
	if p.done {
		return 0, p.readCloseError()
	}
	for {
		vsched.WaitUntil("pipe-read", func() bool { return (p.hasOffer && !p.taken) || p.done })
		if p.hasOffer && !p.taken {
			nr := copy(b, p.offer)
			p.taken = true
			p.nr = nr
			return nr, nil
		}
		if p.done {
			return 0, p.readCloseError()
		}
	}
}

func (p *pipe) write(b []byte) (n int, err error) {
	if p.done {
		return 0, p.writeCloseError()
	}
	vsched.WaitUntil("pipe-wrmu", func() bool { return !p.wrBusy })
	p.wrBusy = true
	defer func() { p.wrBusy = false }()
	for once := true; once || len(b) > 0; once = false {
		if p.done {
			return n, p.writeCloseError()
		}
		p.offer = b
		p.hasOffer = true
		p.taken = false
		vsched.WaitUntil("pipe-write", func() bool { return p.taken || p.done })
		p.hasOffer = false
		if !p.taken {
			return n, p.writeCloseError()
		}
		p.taken = false
		b = b[p.nr:]
		n += p.nr
	}
	return n, nil
}
