// +build verif

// Package vsync stands in for package sync in instrumented code (verifgen rewrites the import).
package vsync

import (
	"sync"

	"git.arvados.org/arvados.git/lib/verifshim/vsched"
)

type Mutex = vsched.Mutex
type RWMutex = vsched.RWMutex
type WaitGroup = vsched.WaitGroup
type Once = vsched.Once
type Cond = vsched.Cond
type Locker = sync.Locker

// Pool stands in for sync.Pool: same API, but deterministic (last in, first out; nothing is ever
// dropped).  sync.Pool may hand back any item that was Put, or a new one; which one depends on the
// P the goroutine runs on and on garbage collections, i.e. on things the explorer does not own.
// LIFO is one of the behaviours sync.Pool allows, so this is an under-approximation that makes
// executions replayable; in particular an item that was Put twice IS handed out twice.
type Pool struct {
	New func() interface{}

	mu    sync.Mutex
	items []interface{}
}

func (p *Pool) Get() interface{} {
	p.mu.Lock()
	if n := len(p.items); n > 0 {
		x := p.items[n-1]
		p.items[n-1] = nil
		p.items = p.items[:n-1]
		p.mu.Unlock()
		return x
	}
	p.mu.Unlock()
	if p.New != nil {
		return p.New()
	}
	return nil
}

func (p *Pool) Put(x interface{}) {
	if x == nil {
		return
	}
	p.mu.Lock()
	p.items = append(p.items, x)
	p.mu.Unlock()
}
type Map = sync.Map

func NewCond(l Locker) *Cond { return vsched.NewCond(l) }
