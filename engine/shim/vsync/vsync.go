// +build verif

// Package vsync stands in for package sync in instrumented code (verifgen rewrites the import).
package vsync

import (
	"sync"

	"git.arvados.org/arvados.git/lib/verifshim/vsched"
)

type Mutex = vsched.Mutex
type RWMutex = vsched.RWMutex
type WaitGroup = vsched.WaitGroup
type Once = vsched.Once
type Cond = vsched.Cond
type Locker = sync.Locker
type Pool = sync.Pool
type Map = sync.Map

func NewCond(l Locker) *Cond { return vsched.NewCond(l) }
