// +build verif

// Package xstate: explicit-state breadth-first search whose transitions are executions of the
// real code.  Live Go objects cannot be cloned, so a state is identified with an event history
// that reaches it; a successor is produced by Model.Run(history + one event), which builds a fresh
// system, replays the history and applies the event.  Reached states are de-duplicated on the
// canonical form Run returns.  BFS order gives shortest counterexamples.
//
// go1.13 subset (no generics).
package xstate

import (
	"crypto/sha1"
	"encoding/hex"
	"fmt"
	"os"
	"sort"
	"strings"

	"git.arvados.org/arvados.git/lib/verifshim/vrep"
)

// Outcome is what Model.Run reports about the state reached by a history.
type Outcome struct {
	// Canon: canonical rendering of the reached state (sorted collections, only fields some
	// future behaviour or the oracle can depend on).  Two histories with equal Canon are merged:
	// only one of them is extended.  Keep it finer when unsure.
	Canon string
	// Enabled: events that may be applied next, deterministic order, simplest first.
	Enabled []string
	// Probe: optional rendering of the answers to a fixed set of read-only probes.  Two histories
	// reaching the same Canon must give the same Probe (differential oracle).
	Probe string
	// Sig/Detail: non-empty Sig = the oracle failed while applying the LAST event of the history
	// (or an invariant fails in the reached state).  Sig must be a stable class name.
	Sig, Detail string
	// Goal marks goal states for the liveness analyses of Graph.
	Goal bool
	// Stop: do not extend this state (e.g. terminal / out of scope).
	Stop bool
}

// Model describes one search.
type Model struct {
	Name     string
	Run      func(hist []string) Outcome
	MaxDepth int   // number of events in the longest explored history
	MaxStates int64 // cap on distinct states (0 = none); hitting it marks the report not exhaustive
	Report   *vrep.Report
	Params   interface{} // stored in replay files
	// KeepGraph: record the labelled state graph (forces the whole search into one process: use
	// with one shard).
	KeepGraph bool
	// NoShard: ignore VERIF_SHARD (harness shards at a higher level).
	NoShard bool
	// SplitDepth: depth at which the frontier is dealt round-robin to the shards (default 2).
	SplitDepth int
	// CostOf: optional deviation cost of an event (e.g. 1 for fault events); histories whose total
	// cost exceeds Budget are not generated.  The remaining budget becomes part of the state
	// identity (a state reached with less budget left has fewer futures).
	CostOf func(ev string) int
	Budget int
}

// Stats of one search.
type Stats struct {
	States      int64 // distinct canonical states (per shard; summed by the driver)
	Transitions int64 // executed transitions (each one is a replay of a history on the real code)
	Depth       int   // deepest level completely expanded
	Exhaustive  bool  // the frontier emptied before MaxDepth (the reachable state space was closed)
	Truncated   int64 // states at depth MaxDepth that were not expanded
	Graph       *Graph
}

type node struct {
	hist    []string
	enabled []string
	id      int
	cost    int
}

func key(canon string, left int) string {
	h := sha1.Sum([]byte(canon))
	return hex.EncodeToString(h[:12]) + fmt.Sprintf("/%d", left)
}

// Search runs the BFS.  With VERIF_REPLAY set it re-runs only the stored history (twice, and
// requires identical canonical states).
func Search(m Model) Stats {
	r := m.Report
	st := Stats{}
	var replay struct {
		History []string `json:"history"`
		Model   string   `json:"model"`
	}
	if os.Getenv("VERIF_REPLAY") != "" && vrep.ReplayDoc(&replay) && replay.History != nil {
		if replay.Model != "" && replay.Model != m.Name {
			return st
		}
		o1 := m.Run(replay.History)
		o2 := m.Run(replay.History)
		if o1.Canon != o2.Canon || o1.Sig != o2.Sig {
			fmt.Fprintf(os.Stderr, "xstate: replay of %v is not deterministic\n", replay.History)
			os.Exit(2)
		}
		st.Transitions = 2
		if o1.Sig != "" && r != nil {
			r.Violation(o1.Sig, o1.Detail+" | history: "+strings.Join(replay.History, " ; "), replayDoc(m, replay.History))
		}
		return st
	}
	shard, nshards := vrep.Shard()
	if m.NoShard || m.KeepGraph {
		if m.KeepGraph && !m.NoShard && shard != 0 {
			return st
		}
		shard, nshards = 0, 1
	}
	split := m.SplitDepth
	if split <= 0 {
		split = 2
	}
	costOf := func(ev string) int {
		if m.CostOf == nil {
			return 0
		}
		return m.CostOf(ev)
	}
	seen := map[string]int{}
	probes := map[string]string{}
	var g *Graph
	if m.KeepGraph {
		g = &Graph{}
		st.Graph = g
	}
	root := m.Run(nil)
	st.Transitions++
	if root.Sig != "" && r != nil {
		r.Violation(root.Sig, root.Detail+" | history: (initial state)", replayDoc(m, []string{}))
	}
	seen[key(root.Canon, m.Budget)] = 0
	probes[key(root.Canon, m.Budget)] = root.Probe
	if g != nil {
		g.addNode(root.Goal, false)
	}
	st.States = 1
	frontier := []node{{hist: nil, enabled: root.Enabled, id: 0}}
	if root.Stop {
		frontier = nil
	}
	st.Exhaustive = true
	counted := func(depth int) bool { return depth >= split || shard == 0 }
	if !counted(0) {
		st.States = 0
		st.Transitions = 0
	}
	capped := false
	for depth := 0; len(frontier) > 0; depth++ {
		if depth >= m.MaxDepth {
			st.Exhaustive = false
			st.Truncated = int64(len(frontier))
			if g != nil {
				for _, n := range frontier {
					g.Nodes[n.id].Truncated = true
				}
			}
			break
		}
		if depth == split && nshards > 1 {
			var mine []node
			for i, n := range frontier {
				if i%nshards == shard {
					mine = append(mine, n)
				}
			}
			frontier = mine
		}
		var next []node
		for _, n := range frontier {
			for _, ev := range n.enabled {
				c := n.cost + costOf(ev)
				if m.CostOf != nil && c > m.Budget {
					continue
				}
				if capped || (r != nil && r.OutOfBudget()) || (m.MaxStates > 0 && st.States >= m.MaxStates) {
					capped = true
					break
				}
				hist := append(append(make([]string, 0, len(n.hist)+1), n.hist...), ev)
				o := m.Run(hist)
				cnt := counted(depth + 1)
				if cnt {
					st.Transitions++
				}
				if o.Sig != "" && r != nil && cnt {
					r.Violation(o.Sig, o.Detail+" | history: "+strings.Join(hist, " ; "), replayDoc(m, hist))
				}
				k := key(o.Canon, m.Budget-c)
				id, ok := seen[k]
				if ok {
					if probes[k] != o.Probe && r != nil && cnt {
						r.Violation("differential:same-state-different-answers:"+m.Name,
							fmt.Sprintf("two histories reach the same canonical state but answer the probes differently: %q vs %q | history: %s", probes[k], o.Probe, strings.Join(hist, " ; ")), replayDoc(m, hist))
					}
				} else {
					id = len(seen)
					seen[k] = id
					probes[k] = o.Probe
					if cnt {
						st.States++
					}
					if g != nil {
						g.addNode(o.Goal, o.Stop)
					}
					if !o.Stop {
						next = append(next, node{hist: hist, enabled: o.Enabled, id: id, cost: c})
					}
				}
				if g != nil {
					g.Edges = append(g.Edges, Edge{From: n.id, To: id, Ev: ev})
				}
			}
		}
		if capped {
			st.Exhaustive = false
			break
		}
		st.Depth = depth + 1
		frontier = next
	}
	if r != nil {
		if capped {
			r.NotExhaustive(fmt.Sprintf("%s: state/time cap hit at %d states, depth %d completed", m.Name, st.States, st.Depth))
		} else if !st.Exhaustive {
			r.Note(fmt.Sprintf("%s: depth bound %d reached with %d unexpanded states (all histories up to that length were explored)", m.Name, m.MaxDepth, st.Truncated))
		} else {
			r.Note(fmt.Sprintf("%s: reachable state space closed at depth %d", m.Name, st.Depth))
		}
	}
	return st
}

func replayDoc(m Model, hist []string) map[string]interface{} {
	return map[string]interface{}{"model": m.Name, "params": m.Params, "history": hist}
}

// ---------------------------------------------------------------------------------------------
// Labelled state graph and the analyses used for bounded liveness.

type Node struct {
	Goal      bool
	Stop      bool
	Truncated bool // at the depth bound: successors unknown
}

type Edge struct {
	From, To int
	Ev       string
}

type Graph struct {
	Nodes []Node
	Edges []Edge
}

func (g *Graph) addNode(goal, stop bool) {
	g.Nodes = append(g.Nodes, Node{Goal: goal, Stop: stop})
}

// CannotReachGoal returns the ids of non-truncated-dependent states from which no goal state is
// reachable ("AG EF goal" fails there).  States that can reach a truncated state are given the
// benefit of the doubt (their futures are not fully known) and are not returned.
func (g *Graph) CannotReachGoal() []int {
	n := len(g.Nodes)
	rev := make([][]int, n)
	for _, e := range g.Edges {
		rev[e.To] = append(rev[e.To], e.From)
	}
	ok := make([]bool, n)
	var stack []int
	for i, nd := range g.Nodes {
		if nd.Goal || nd.Truncated {
			ok[i] = true
			stack = append(stack, i)
		}
	}
	for len(stack) > 0 {
		x := stack[len(stack)-1]
		stack = stack[:len(stack)-1]
		for _, p := range rev[x] {
			if !ok[p] {
				ok[p] = true
				stack = append(stack, p)
			}
		}
	}
	var bad []int
	for i := range g.Nodes {
		if !ok[i] {
			bad = append(bad, i)
		}
	}
	return bad
}

// BadBottomSCCs considers only edges accepted by keep (the "cooperative" events) and returns one
// representative state id per bottom strongly connected component (no cooperative edge leaves it)
// that contains a non-goal state and no truncated state.  Under strong fairness of the cooperative
// events, "every bottom SCC is all-goal" is "eventually goal" on the explored graph.
func (g *Graph) BadBottomSCCs(keep func(ev string) bool) []int {
	n := len(g.Nodes)
	adj := make([][]int, n)
	for _, e := range g.Edges {
		if keep == nil || keep(e.Ev) {
			adj[e.From] = append(adj[e.From], e.To)
		}
	}
	// iterative Tarjan
	index := make([]int, n)
	low := make([]int, n)
	onst := make([]bool, n)
	comp := make([]int, n)
	for i := range index {
		index[i] = -1
		comp[i] = -1
	}
	var st []int
	idx, ncomp := 0, 0
	type frame struct{ v, i int }
	for s := 0; s < n; s++ {
		if index[s] != -1 {
			continue
		}
		fr := []frame{{s, 0}}
		index[s], low[s] = idx, idx
		idx++
		st = append(st, s)
		onst[s] = true
		for len(fr) > 0 {
			f := &fr[len(fr)-1]
			if f.i < len(adj[f.v]) {
				w := adj[f.v][f.i]
				f.i++
				if index[w] == -1 {
					index[w], low[w] = idx, idx
					idx++
					st = append(st, w)
					onst[w] = true
					fr = append(fr, frame{w, 0})
				} else if onst[w] && index[w] < low[f.v] {
					low[f.v] = index[w]
				}
				continue
			}
			v := f.v
			fr = fr[:len(fr)-1]
			if len(fr) > 0 {
				p := fr[len(fr)-1].v
				if low[v] < low[p] {
					low[p] = low[v]
				}
			}
			if low[v] == index[v] {
				for {
					w := st[len(st)-1]
					st = st[:len(st)-1]
					onst[w] = false
					comp[w] = ncomp
					if w == v {
						break
					}
				}
				ncomp++
			}
		}
	}
	bottom := make([]bool, ncomp)
	allGoal := make([]bool, ncomp)
	trunc := make([]bool, ncomp)
	rep := make([]int, ncomp)
	for c := range bottom {
		bottom[c] = true
		allGoal[c] = true
		rep[c] = -1
	}
	for v := 0; v < n; v++ {
		c := comp[v]
		if !g.Nodes[v].Goal {
			allGoal[c] = false
			if rep[c] == -1 {
				rep[c] = v
			}
		}
		if g.Nodes[v].Truncated {
			trunc[c] = true
		}
		for _, w := range adj[v] {
			if comp[w] != c {
				bottom[c] = false
			}
		}
	}
	var bad []int
	for c := 0; c < ncomp; c++ {
		if bottom[c] && !allGoal[c] && !trunc[c] {
			bad = append(bad, rep[c])
		}
	}
	sort.Ints(bad)
	return bad
}

// PathTo returns the event labels of a shortest path from state 0 to id (BFS over the graph).
func (g *Graph) PathTo(id int) []string {
	n := len(g.Nodes)
	prev := make([]int, n)
	pev := make([]string, n)
	for i := range prev {
		prev[i] = -2
	}
	adj := make([][]int, n)
	for i, e := range g.Edges {
		adj[e.From] = append(adj[e.From], i)
	}
	prev[0] = -1
	q := []int{0}
	for len(q) > 0 {
		x := q[0]
		q = q[1:]
		if x == id {
			break
		}
		for _, ei := range adj[x] {
			e := g.Edges[ei]
			if prev[e.To] == -2 {
				prev[e.To] = x
				pev[e.To] = e.Ev
				q = append(q, e.To)
			}
		}
	}
	if prev[id] == -2 {
		return nil
	}
	var out []string
	for x := id; prev[x] >= 0; x = prev[x] {
		out = append([]string{pev[x]}, out...)
	}
	return out
}
