// see pam_stub_cgo.go
package pam
