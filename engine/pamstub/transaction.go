// Stand-in for github.com/msteinert/pam, used ONLY to let lib/controller/localdb (imported
// by lib/controller and lib/controller/federation) compile on a machine without the PAM
// development header (security/pam_appl.h) and libpam.so.  Nothing checked by C19 reaches PAM: every
// entry point fails with an error.  Mapped over transaction.go of the module by bin/check ("replace"); it must keep `import "C"` and must
// not import anything else (go build -overlay limitations), transaction.c -> pam_empty.c, callback.go -> pam_empty.go.
package pam

import "C"

type Style int

const (
	PromptEchoOff Style = 1
	PromptEchoOn  Style = 2
	ErrorMsg      Style = 3
	TextInfo      Style = 4
)

type ConversationHandler interface {
	RespondPAM(Style, string) (string, error)
}

type ConversationFunc func(Style, string) (string, error)

func (f ConversationFunc) RespondPAM(s Style, msg string) (string, error) { return f(s, msg) }

type Transaction struct{}

type stubErr struct{}

func (stubErr) Error() string { return "pam: not available in the verification build" }

var errStub error = stubErr{}

func Start(service, user string, handler ConversationHandler) (*Transaction, error) {
	return nil, errStub
}

func StartFunc(service, user string, handler func(Style, string) (string, error)) (*Transaction, error) {
	return nil, errStub
}

func (t *Transaction) Error() string { return errStub.Error() }

type Item int

const (
	Service    Item = 1
	User       Item = 2
	Tty        Item = 3
	Rhost      Item = 4
	Authtok    Item = 6
	Oldauthtok Item = 7
	Ruser      Item = 8
	UserPrompt Item = 9
)

func (t *Transaction) SetItem(i Item, item string) error { return errStub }
func (t *Transaction) GetItem(i Item) (string, error)    { return "", errStub }

type Flags int

const (
	Silent               Flags = 0x8000
	DisallowNullAuthtok  Flags = 0x0001
	EstablishCred        Flags = 0x0002
	DeleteCred           Flags = 0x0004
	ReinitializeCred     Flags = 0x0008
	RefreshCred          Flags = 0x0010
	ChangeExpiredAuthtok Flags = 0x0020
)

func (t *Transaction) Authenticate(f Flags) error  { return errStub }
func (t *Transaction) SetCred(f Flags) error       { return errStub }
func (t *Transaction) AcctMgmt(f Flags) error      { return errStub }
func (t *Transaction) ChangeAuthTok(f Flags) error { return errStub }
func (t *Transaction) OpenSession(f Flags) error   { return errStub }
func (t *Transaction) CloseSession(f Flags) error  { return errStub }
func (t *Transaction) PutEnv(nameval string) error { return errStub }
func (t *Transaction) GetEnv(name string) string   { return "" }
func (t *Transaction) GetEnvList() (map[string]string, error) {
	return nil, errStub
}
