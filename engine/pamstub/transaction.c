/* empty: verification build replaces the PAM glue */
